(* C20 proofs: the invariant Coherent is preserved by every protocol step and every eviction when all
   processes share one L2 instance; reads through the registry are then never stale (any number of
   processes); fast-path reads are never stale for a process whose L1 handle MRU agrees with the registry
   (true when it is the only writer); witnesses for the stale fast-path read after another process commits,
   and for two standalone processes. *)
From Coq Require Import NArith Bool List Lia.
From SopVerif Require Import CacheCoh.
Import ListNotations.
Local Open Scope N_scope.

Record Coherent (c0 : N) (s : st) : Prop := mkCoh {
  co_l2h : forall i l h, l2h s i l = Some h -> i = c0 /\ reg s l = Some h;
  co_l1n : forall p x v c, l1n s p x = Some (v, c) -> written s x = Some c;
  co_l2n : forall i x c, l2n s i x = Some c -> written s x = Some c;
  co_blob : forall x c, blob s x = Some c -> written s x = Some c;
  co_reg : forall l h, reg s l = Some h -> exists c, blob s (act h) = Some c;
  co_lt : forall x c, written s x = Some c -> x < next s;
  co_inj : forall l l' h h', reg s l = Some h -> reg s l' = Some h' -> act h = act h' -> l = l'
}.

Definition shared (cfg : N -> N) (c0 : N) : Prop := forall p, cfg p = c0.

Ltac ubreak :=
  repeat match goal with
  | H : context [N.eqb ?a ?b] |- _ => destruct (N.eqb_spec a b); subst
  | |- context [N.eqb ?a ?b] => destruct (N.eqb_spec a b); subst
  end.

Lemma coherent0 : forall c0, Coherent c0 st0.
Proof. intros c0. constructor; cbn; intros; try discriminate. Qed.

Lemma reg_get_ok : forall cfg c0 s p l oh s1, shared cfg c0 -> Coherent c0 s ->
  reg_get cfg s p l = (oh, s1) ->
  Coherent c0 s1 /\ (forall h, oh = Some h -> reg s l = Some h) /\
  reg s1 = reg s /\ blob s1 = blob s /\ l1n s1 = l1n s /\ l1h s1 = l1h s /\ l2n s1 = l2n s /\ written s1 = written s.
Proof.
  intros cfg c0 s p l oh s1 Hsh Hc. unfold reg_get.
  destruct (l2h s (cfg p) l) as [h|] eqn:E.
  - intros H; inversion H; subst. split; [exact Hc|]. split; [|repeat split; reflexivity].
    intros h0 H0; inversion H0; subst. now destruct (co_l2h _ _ Hc _ _ _ E).
  - destruct (reg s l) as [h|] eqn:R; intros H; inversion H; subst.
    + split; [|split; [intros h0 H0; now inversion H0|repeat split; reflexivity]].
      destruct Hc as [A B C D E' F G]. constructor; cbn; auto.
      intros i l0 h0. unfold upd2, upd. rewrite (Hsh p). ubreak; intros X;
        try solve [inversion X; subst; auto]; try solve [eauto]; now apply A in X.
    + split; [exact Hc|]. split; [intros h0 H0; discriminate|repeat split; reflexivity].
Qed.

Lemma write_ok : forall cfg c0 s p l c, shared cfg c0 -> Coherent c0 s -> Coherent c0 (write cfg s p l c).
Proof.
  intros cfg c0 s p l c Hsh [A B C D E F G]. unfold write.
  assert (Hfresh : written s (next s) = None).
  { destruct (written s (next s)) eqn:W; [|reflexivity]. apply F in W. lia. }
  assert (Hreg : forall l0 h0, reg s l0 = Some h0 -> act h0 < next s).
  { intros l0 h0 R. destruct (E _ _ R) as [c1 Hb]. eapply F, D; eauto. }
  constructor; cbn.
  - intros i l0 h0. unfold upd2, upd. rewrite (Hsh p). ubreak; intros X;
      try solve [inversion X; subst; auto]; apply A in X; destruct X; try congruence; auto.
  - intros q x v c1. unfold upd. ubreak.
    + intros X; inversion X; subst; reflexivity.
    + destruct (reg s l) as [h|] eqn:R; unfold upd; ubreak; intros X; try discriminate; eauto.
    + intros X. apply B in X. congruence.
    + intros X. eauto.
  - intros i x c1. unfold upd. ubreak.
    + intros X; inversion X; subst; reflexivity.
    + destruct (reg s l) as [h|] eqn:R; unfold upd; ubreak; intros X; try discriminate; eauto.
    + intros X. apply C in X. congruence.
    + intros X. eauto.
  - intros x c1. unfold upd. ubreak.
    + intros X; inversion X; subst; reflexivity.
    + destruct (reg s l) as [h|] eqn:R; unfold upd; ubreak; intros X; try discriminate; eauto.
  - intros l0 h0 X. unfold upd in X. destruct (N.eqb_spec l0 l) as [->|Hne].
    + inversion X; subst. cbn. unfold upd. rewrite N.eqb_refl. eauto.
    + pose proof (Hreg _ _ X) as Hlt. destruct (E _ _ X) as [c1 Hb].
      unfold upd at 1. destruct (N.eqb_spec (act h0) (next s)); [lia|].
      destruct (reg s l) as [h|] eqn:R; [|eauto].
      unfold upd. destruct (N.eqb_spec (act h0) (act h)); [|eauto].
      exfalso. apply Hne. eapply G; eauto.
  - intros x c1. unfold upd. ubreak; intros X; [lia|]. apply F in X. lia.
  - intros l0 l' h0 h'. unfold upd. ubreak; intros X Y Z; try reflexivity.
    + inversion X; subst. cbn in Z. apply Hreg in Y. lia.
    + inversion Y; subst. cbn in Z. apply Hreg in X. lia.
    + eapply G; eauto.
Qed.

Lemma l1n_hit_ok : forall c0 s p h l c cb, Coherent c0 s -> reg s l = Some h ->
  l1n_hit s p h = Some c -> blob s (act h) = Some cb -> c = cb.
Proof.
  intros c0 s p h l c cb Hc R. unfold l1n_hit.
  destruct (l1n s p (act h)) as [[v c1]|] eqn:E; [|discriminate].
  destruct (N.eqb v (hver h)); [|discriminate]. intros X Hb. inversion X; subst.
  apply (co_l1n _ _ Hc) in E. apply (co_blob _ _ Hc) in Hb. congruence.
Qed.

(* a read that goes through the registry returns the latest committed content, and keeps the invariant *)
Lemma read_slow_ok : forall cfg c0 s p l r s1, shared cfg c0 -> Coherent c0 s ->
  read cfg s p l false = (r, s1) ->
  Coherent c0 s1 /\ r = latest s l /\ reg s1 = reg s /\ blob s1 = blob s /\ l1h s1 = l1h s.
Proof.
  intros cfg c0 s p l r s1 Hsh Hc. unfold read.
  destruct (reg_get cfg s p l) as [oh s0] eqn:Hg.
  destruct (reg_get_ok _ _ _ _ _ _ _ Hsh Hc Hg) as [Hc0 [Hoh [Er [Eb [E1n [E1h [E2n Ew]]]]]]].
  destruct oh as [h|].
  - pose proof (Hoh h eq_refl) as R. unfold latest. rewrite R.
    destruct (co_reg _ _ Hc _ _ R) as [cb Hb]. rewrite Hb.
    assert (R0 : reg s0 l = Some h) by (rewrite Er; exact R).
    assert (Hb0 : blob s0 (act h) = Some cb) by (rewrite Eb; exact Hb).
    destruct (l1n_hit s0 p h) as [c|] eqn:Hh.
    + intros X; inversion X; subst. rewrite (l1n_hit_ok _ _ _ _ _ _ _ Hc0 R0 Hh Hb0). auto.
    + destruct (l2n s0 (cfg p) (act h)) as [c|] eqn:H2.
      * intros X; inversion X; subst; cbn.
        assert (c = cb).
        { apply (co_l2n _ _ Hc0) in H2. apply (co_blob _ _ Hc0) in Hb0. congruence. }
        subst c. split; [|auto].
        destruct Hc0 as [A B C D E F G]. constructor; cbn; auto.
        intros q x v c1. unfold upd2, upd. ubreak; intros X1; try solve [inversion X1; subst; eauto]; eauto.
      * rewrite Hb0. intros X; inversion X; subst; cbn. split; [|auto].
        destruct Hc0 as [A B C D E F G]. constructor; cbn; auto.
        -- intros q x v c1. unfold upd2, upd. ubreak; intros X1; try solve [inversion X1; subst; eauto]; eauto.
        -- intros i x c1. unfold upd2, upd. ubreak; intros X1; try solve [inversion X1; subst; eauto]; eauto.
  - intros X; inversion X; subst. unfold latest.
    destruct (reg s l) as [h|] eqn:R; [|auto].
    exfalso. unfold reg_get in Hg. destruct (l2h s (cfg p) l); [discriminate|]. rewrite R in Hg. discriminate.
Qed.

(* the per-process L1 handle MRU agrees with the registry *)
Definition handles_fresh (s : st) (p : N) : Prop := forall l h, l1h s p l = Some h -> reg s l = Some h.

Lemma read_fast_ok : forall cfg c0 s p l r s1, shared cfg c0 -> Coherent c0 s -> handles_fresh s p ->
  read cfg s p l true = (r, s1) -> Coherent c0 s1 /\ r = latest s l /\ reg s1 = reg s /\ blob s1 = blob s /\ l1h s1 = l1h s.
Proof.
  intros cfg c0 s p l r s1 Hsh Hc Hf Hr.
  unfold read in Hr.
  destruct (l1h s p l) as [h|] eqn:E1.
  - destruct (l1n_hit s p h) as [c|] eqn:Hh.
    + inversion Hr; subst. pose proof (Hf _ _ E1) as R. unfold latest. rewrite R.
      destruct (co_reg _ _ Hc _ _ R) as [cb Hb]. rewrite Hb.
      rewrite (l1n_hit_ok _ _ _ _ _ _ _ Hc R Hh Hb). auto.
    + apply (read_slow_ok cfg c0 s p l r s1 Hsh Hc). unfold read. exact Hr.
  - apply (read_slow_ok cfg c0 s p l r s1 Hsh Hc). unfold read. exact Hr.
Qed.

Lemma evict_ok : forall cfg c0 s e, Coherent c0 s ->
  match e with Write _ _ _ | Read _ _ _ => True | _ => Coherent c0 (fst (step cfg s e)) end.
Proof.
  intros cfg c0 s e [A B C D E F G].
  destruct e as [p0 l0 cc|p0 l0 f0|p0 l0|p0 x0|j0 l0|j0 x0]; auto; cbn; constructor; cbn; auto.
  - intros q x v c1. unfold upd2, upd. ubreak; intros X; try discriminate; eauto.
  - intros i l1 h1. unfold upd2, upd. ubreak; intros X; try discriminate; eauto.
  - intros i x c1. unfold upd2, upd. ubreak; intros X; try discriminate; eauto.
Qed.

Definition no_fast (e : ev) : Prop := match e with Read _ _ true => False | _ => True end.

(* every step of a history without fast-path reads keeps the invariant, and each of its reads is fresh *)
Theorem run_slow_fresh : forall cfg c0 es s, shared cfg c0 -> Coherent c0 s -> Forall no_fast es ->
  Coherent c0 (fst (run cfg s es)) /\
  (forall pre p l f post, es = pre ++ Read p l f :: post ->
     nth (length (snd (run cfg s pre))) (snd (run cfg s es)) None = latest (fst (run cfg s pre)) l).
Proof.
  intros cfg c0 es. induction es as [|e r IH]; intros s Hsh Hc Hnf.
  - cbn. split; [exact Hc|]. intros pre p l f post H. destruct pre; discriminate.
  - inversion Hnf as [|e' r' He Hr]; subst.
    assert (Hstep : Coherent c0 (fst (step cfg s e)) /\
                    (forall p l f, e = Read p l f -> snd (step cfg s e) = Some (latest s l))).
    { destruct e as [p l c|p l f|p l|p x|i l|i x].
      - split; [cbn; now apply write_ok|intros; discriminate].
      - destruct f; [contradiction|]. unfold step. destruct (read cfg s p l false) as [rr s1] eqn:Hrd.
        destruct (read_slow_ok _ _ _ _ _ _ _ Hsh Hc Hrd) as [H1 [H2 _]]. cbn [fst snd]. split; [exact H1|].
        intros p0 l0 f0 X. inversion X; subst p0 l0 f0. rewrite H2. reflexivity.
      - split; [exact (evict_ok cfg c0 s (EvL1h p l) Hc)|intros; discriminate].
      - split; [exact (evict_ok cfg c0 s (EvL1n p x) Hc)|intros; discriminate].
      - split; [exact (evict_ok cfg c0 s (EvL2h i l) Hc)|intros; discriminate].
      - split; [exact (evict_ok cfg c0 s (EvL2n i x) Hc)|intros; discriminate]. }
    destruct Hstep as [Hc1 Hrd]. cbn [run].
    destruct (step cfg s e) as [s1 o] eqn:Hs. cbn [fst snd] in Hc1, Hrd.
    destruct (IH s1 Hsh Hc1 Hr) as [IH1 IH2].
    destruct (run cfg s1 r) as [s2 lr] eqn:Hrun. cbn [fst snd] in *. split; [exact IH1|].
    intros pre p l f post Heq. destruct pre as [|e0 pre'].
    + cbn in Heq. inversion Heq; subst. cbn. rewrite (Hrd _ _ _ eq_refl). reflexivity.
    + cbn in Heq. inversion Heq; subst. cbn [run]. rewrite Hs.
      destruct (run cfg s1 pre') as [s3 lp] eqn:Hpre. cbn [fst snd].
      specialize (IH2 pre' p l f post eq_refl). rewrite Hpre in IH2. cbn [fst snd] in IH2.
      destruct o; cbn [length]; [cbn [nth]|]; exact IH2.
Qed.

(* ------------------------------------------------------------------ witnesses *)

(* clustered, two processes: process 0 commits node 7 (content 11) and reads it; process 1 commits 22;
   process 0 reads again in a new transaction (phase 0, fast path) and is served 11 *)
Definition s10 : list ev := [Write 0 7 11; Read 0 7 true; Write 1 7 22; Read 0 7 true; Read 0 7 false].
Lemma s10_witness :
  snd (run clustered st0 s10) = [Some 11; Some 11; Some 22] /\ latest (fst (run clustered st0 s10)) 7 = Some 22.
Proof. vm_compute. split; reflexivity. Qed.

(* two standalone processes (one L2 per process): the reader's own L2 keeps the old handle *)
Definition two_standalone : list ev := [Write 0 7 11; Read 1 7 false; Write 0 7 22; Read 1 7 false].
Lemma two_standalone_witness :
  snd (run standalone st0 two_standalone) = [Some 11; Some 11] /\ latest (fst (run standalone st0 two_standalone)) 7 = Some 22.
Proof. vm_compute. split; reflexivity. Qed.

(* ------------------------------------------------------------------ one process (P = 1) *)
Definition by_p (p : N) (e : ev) : Prop :=
  match e with Write q _ _ => q = p | Read q _ _ => q = p | _ => True end.

Definition solo_inv (c0 p : N) (s : st) : Prop := Coherent c0 s /\ handles_fresh s p.

Lemma solo_step : forall cfg c0 p s e, shared cfg c0 -> solo_inv c0 p s -> by_p p e ->
  solo_inv c0 p (fst (step cfg s e)).
Proof.
  intros cfg c0 p s e Hsh [Hc Hf] Hb.
  destruct e as [q l c|q l f|q l|q x|i l|i x]; cbn in Hb; subst.
  - split; [cbn; now apply write_ok|].
    intros l0 h0. cbn. unfold upd2, upd. rewrite N.eqb_refl.
    destruct (N.eqb_spec l0 l); [auto|]. intros X. now apply Hf.
  - unfold step. destruct (read cfg s p l f) as [r s1] eqn:Hr. cbn [fst].
    assert (H : Coherent c0 s1 /\ r = latest s l /\ reg s1 = reg s /\ blob s1 = blob s /\ l1h s1 = l1h s).
    { destruct f; [eapply read_fast_ok|eapply read_slow_ok]; eauto. }
    destruct H as [H1 [_ [H3 [_ H5]]]]. split; [exact H1|].
    intros l0 h0. rewrite H5, H3. apply Hf.
  - split; [exact (evict_ok cfg c0 s (EvL1h q l) Hc)|].
    intros l0 h0. cbn. unfold upd2, upd. ubreak; intros X; try discriminate; now apply Hf.
  - split; [exact (evict_ok cfg c0 s (EvL1n q x) Hc)|]. intros l0 h0. cbn. apply Hf.
  - split; [exact (evict_ok cfg c0 s (EvL2h i l) Hc)|]. intros l0 h0. cbn. apply Hf.
  - split; [exact (evict_ok cfg c0 s (EvL2n i x) Hc)|]. intros l0 h0. cbn. apply Hf.
Qed.

Lemma solo_run : forall cfg c0 p es s, shared cfg c0 -> solo_inv c0 p s -> Forall (by_p p) es ->
  solo_inv c0 p (fst (run cfg s es)).
Proof.
  intros cfg c0 p es. induction es as [|e r IH]; intros s Hsh Hi Hb; [exact Hi|].
  inversion Hb; subst. cbn [run].
  pose proof (solo_step cfg c0 p s e Hsh Hi H1) as Hs.
  destruct (step cfg s e) as [s1 o]. cbn [fst] in Hs.
  pose proof (IH s1 Hsh Hs H2) as Hr. destruct (run cfg s1 r) as [s2 lr]. exact Hr.
Qed.

(* slow-path invariant alone, any processes *)
Lemma coh_run : forall cfg c0 es s, shared cfg c0 -> Coherent c0 s -> Forall no_fast es ->
  Coherent c0 (fst (run cfg s es)).
Proof. intros. now apply run_slow_fresh. Qed.

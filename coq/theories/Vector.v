(* C33 — bookkeeping model of /repo/ai/vector (store.go, store.optimize.go,
   store.consolidate.go): the Content store id |-> (ContentKey, payload), the
   Vectors store of the ACTIVE index version keyed (centroid, distance, id), the
   TempVectors staging buffer, the active version, and the version-resolution
   rules of Get / Delete / upsertItem / Query / Optimize.

   NOT modelled (oracles, supplied per operation): which centroid a vector is
   assigned to and at what distance (k-means, closest-centroid search, float32
   geometry) — the pair (cid, dist) travels with each operation; which centroids
   a query probes; the similarity score of a stored vector against the query.
   Distances are opaque codes (the harness uses the float32 bit pattern); the
   1e-3 closeness test of phase 3 is the parameter [close].

   Definitions only (no lemmas) so that the correspondence still evaluates if a
   proof breaks. *)
From Coq Require Import List ZArith NArith Bool.
From SopVerif Require Import Gen.VectorConsts.
Import ListNotations.
Local Open Scope Z_scope.

Definition vec := list Z.

(* ai.ContentKey without ItemID *)
Record ckey := mkCK { ck_cid : Z; ck_dist : Z; ck_ver : Z; ck_del : bool;
                      ck_ncid : Z; ck_ndist : Z; ck_nver : Z }.
(* one item of the Vectors B-tree: ai.VectorKey + value *)
Record vent := mkVE { ve_cid : Z; ve_dist : Z; ve_id : N; ve_del : bool; ve_vec : vec }.

Definition centry := (N * (ckey * N))%type.     (* id, key metadata, payload (canonical number) *)

Record st := mkSt { active : Z; content : list centry; vectors : list vent; temp : list (N * vec) }.

Definition init : st := mkSt 0 [] [] [].
Definition zero_key : ckey := mkCK 0 0 0 false 0 0 0.
Definition MAXF : Z := 2139095039.   (* bits of math.MaxFloat32: findClosestCentroid over an empty centroid map *)
Definition consolidate_batch : nat := vector_consolidate_batch.   (* store.consolidate.go: batchSize, read from the source by the translator *)

(* ---- Content store: a B-tree keyed by ItemID (Upsert replaces key and value) *)
Fixpoint cfind (c : list centry) (id : N) : option (ckey * N) :=
  match c with
  | [] => None
  | (i, v) :: r => if N.eqb i id then Some v else cfind r id
  end.
Fixpoint cset (c : list centry) (id : N) (v : ckey * N) : list centry :=
  match c with
  | [] => [(id, v)]
  | (i, w) :: r => if N.eqb i id then (id, v) :: r
                   else if N.ltb id i then (id, v) :: (i, w) :: r
                   else (i, w) :: cset r id v
  end.
Definition cremove (c : list centry) (id : N) : list centry :=
  filter (fun e => negb (N.eqb (fst e) id)) c.

(* ---- Vectors store: unique B-tree ordered by (cid, dist, id); IsDeleted is not compared *)
Definition vkey_is (e : vent) (c d : Z) (i : N) : bool :=
  (ve_cid e =? c) && (ve_dist e =? d) && (N.eqb (ve_id e) i).
Definition vkey_lt (a b : vent) : bool :=
  if ve_cid a =? ve_cid b then
    if ve_dist a =? ve_dist b then N.ltb (ve_id a) (ve_id b) else ve_dist a <? ve_dist b
  else ve_cid a <? ve_cid b.
Fixpoint vfind (vs : list vent) (c d : Z) (i : N) : option vent :=
  match vs with
  | [] => None
  | e :: r => if vkey_is e c d i then Some e else vfind r c d i
  end.
Definition vremove (vs : list vent) (c d : Z) (i : N) : list vent :=
  filter (fun e => negb (vkey_is e c d i)) vs.
(* Add on a unique store: refused (returns false, no error) when the key exists *)
Fixpoint vinsert (vs : list vent) (e : vent) : list vent :=
  match vs with
  | [] => [e]
  | x :: r => if vkey_lt e x then e :: x :: r else x :: vinsert r e
  end.
Definition vadd (vs : list vent) (e : vent) : list vent :=
  match vfind vs (ve_cid e) (ve_dist e) (ve_id e) with
  | Some _ => vs
  | None => vinsert vs e
  end.
(* UpdateKey with IsDeleted = true *)
Definition vtomb (vs : list vent) (c d : Z) (i : N) : list vent :=
  map (fun e => if vkey_is e c d i then mkVE (ve_cid e) (ve_dist e) (ve_id e) true (ve_vec e) else e) vs.

(* ---- TempVectors: B-tree keyed by ItemID; a deleted entry holds the nil vector *)
Fixpoint tfind (t : list (N * vec)) (id : N) : option vec :=
  match t with
  | [] => None
  | (i, v) :: r => if N.eqb i id then Some v else tfind r id
  end.
Fixpoint tset (t : list (N * vec)) (id : N) (v : vec) : list (N * vec) :=
  match t with
  | [] => [(id, v)]
  | (i, w) :: r => if N.eqb i id then (id, v) :: r
                   else if N.ltb id i then (id, v) :: (i, w) :: r
                   else (i, w) :: tset r id v
  end.
Definition tupdate (t : list (N * vec)) (id : N) (v : vec) : list (N * vec) :=
  map (fun e => if N.eqb (fst e) id then (fst e, v) else e) t.
Definition tremove (t : list (N * vec)) (id : N) : list (N * vec) :=
  filter (fun e => negb (N.eqb (fst e) id)) t.

(* ---- version resolution (Get, upsertItem, phase 3):
        if key.Version != v && key.NextVersion == v then the Next fields else the main fields *)
Definition resolve (v : Z) (k : ckey) : Z * Z :=
  if negb (ck_ver k =? v) && (ck_nver k =? v) then (ck_ncid k, ck_ndist k) else (ck_cid k, ck_dist k).

(* ---- upsertItem, index path (arch.TempVectors == nil); (cid, dist) is the oracle's answer *)
Definition upsert_index (dedup : bool) (s : st) (id : N) (v : vec) (p : N) (a : Z * Z) : st :=
  let vs1 :=
    if dedup then
      match cfind (content s) id with
      | Some (k, _) =>
          let '(oc, od) := resolve (active s) k in
          let oc := if oc =? 0 then 1 else oc in
          vremove (vectors s) oc od id
      | None => vectors s
      end
    else vectors s in
  let vs2 := vadd vs1 (mkVE (fst a) (snd a) id false v) in
  mkSt (active s) (cset (content s) id (mkCK (fst a) (snd a) (active s) false 0 0 0, p)) vs2 (temp s).

(* upsertItem, staging path (arch.TempVectors != nil) *)
Definition upsert_buffer (s : st) (id : N) (v : vec) (p : N) : st :=
  mkSt (active s) (cset (content s) id (zero_key, p)) (vectors s) (tset (temp s) id v).

Definition upsert (buf dedup : bool) (s : st) (id : N) (v : vec) (p : N) (a : Z * Z) : st :=
  if buf then upsert_buffer s id v p else upsert_index dedup s id v p a.

(* ---- Delete: tombstone in Content (with lazy promotion of the Next fields), tombstone in Vectors / nil in TempVectors *)
Definition delete (buf : bool) (s : st) (id : N) : st :=
  match cfind (content s) id with
  | None => s
  | Some (k, p) =>
      let k2 :=
        if negb (ck_ver k =? active s) && (ck_nver k =? active s)
        then mkCK (ck_ncid k) (ck_ndist k) (ck_nver k) true 0 0 0
        else mkCK (ck_cid k) (ck_dist k) (ck_ver k) true (ck_ncid k) (ck_ndist k) (ck_nver k) in
      let c2 := cset (content s) id (k2, p) in
      if buf then mkSt (active s) c2 (vectors s) (tupdate (temp s) id [])
      else if ck_cid k2 =? 0 then mkSt (active s) c2 (vectors s) (temp s)
      else mkSt (active s) c2 (vtomb (vectors s) (ck_cid k2) (ck_dist k2) id) (temp s)
  end.

(* ---- Get: Some (vector, payload, centroid id reported) or None = error *)
Definition get (buf : bool) (s : st) (id : N) : option (vec * N * Z) :=
  match cfind (content s) id with
  | None => None
  | Some (k, p) =>
      if ck_del k then None
      else if buf then
        match tfind (temp s) id with Some v => Some (v, p, 0) | None => None end
      else
        let '(c, d) := resolve (active s) k in
        if c =? 0 then None
        else match vfind (vectors s) c d id with
             | Some e => Some (ve_vec e, p, c)
             | None => None
             end
  end.

(* ---- Query *)
Fixpoint insert_desc (x : N * Z) (l : list (N * Z)) : list (N * Z) :=
  match l with
  | [] => [x]
  | y :: r => if snd y <? snd x then x :: y :: r else y :: insert_desc x r
  end.
Fixpoint sort_desc (l : list (N * Z)) : list (N * Z) :=
  match l with
  | [] => []
  | x :: r => insert_desc x (sort_desc r)
  end.

(* candidates: the non-tombstoned items of the probed centroid buckets (index mode),
   or every staged non-nil vector (staging mode) *)
Definition candidates (buf : bool) (s : st) (probes : list Z) (sim : vec -> Z) : list (N * Z) :=
  if buf then
    flat_map (fun e => match snd e with [] => [] | _ => [(fst e, sim (snd e))] end) (temp s)
  else
    flat_map (fun c => map (fun e => (ve_id e, sim (ve_vec e)))
                           (filter (fun e => (ve_cid e =? c) && negb (ve_del e)) (vectors s))) probes.

(* a candidate survives when Content has it, not deleted, and the payload passes the filter *)
Definition passes (s : st) (flt : N -> bool) (h : N * Z) : bool :=
  match cfind (content s) (fst h) with
  | Some (k, p) => negb (ck_del k) && flt p
  | None => false
  end.

(* every surviving candidate, best first (no cut-off) *)
Definition ranked (buf : bool) (s : st) (probes : list Z) (sim : vec -> Z) (flt : N -> bool) : list (N * Z) :=
  filter (passes s flt) (sort_desc (candidates buf s probes sim)).

Definition query (buf : bool) (s : st) (probes : list Z) (sim : vec -> Z) (k : Z) (flt : N -> bool) : list (N * Z) :=
  firstn (Z.to_nat k) (ranked buf s probes sim flt).

(* ---- Optimize *)
Fixpoint alookup {A B : Type} (eqb : A -> A -> bool) (l : list (A * B)) (a : A) (d : B) : B :=
  match l with
  | [] => d
  | (x, y) :: r => if eqb x a then y else alookup eqb r a d
  end.
Fixpoint vec_eqb (a b : vec) : bool :=
  match a, b with
  | [], [] => true
  | x :: a', y :: b' => (x =? y) && vec_eqb a' b'
  | _, _ => false
  end.
Definition idvec_eqb (a b : N * vec) : bool := N.eqb (fst a) (fst b) && vec_eqb (snd a) (snd b).

(* Consolidate: the first [consolidate_batch] staged entries (key order) that have a Content entry
   are pushed through the index path of upsertItem — with the staged vector (nil for a deleted entry)
   and a FRESH ContentKey (Deleted=false) — and all scanned entries are removed from TempVectors. *)
Definition consolidate (dedup : bool) (s : st) (cs : list (N * (Z * Z))) : st :=
  let batch := firstn consolidate_batch (temp s) in
  let s1 := fold_left (fun acc e =>
                         match cfind (content acc) (fst e) with
                         | Some (_, p) => upsert_index dedup acc (fst e) (snd e) p (alookup N.eqb cs (fst e) (1, 0))
                         | None => acc
                         end) batch s in
  mkSt (active s1) (content s1) (vectors s1) (fold_left (fun t e => tremove t (fst e)) batch (temp s1)).

Section WithClose.
Variable close : Z -> Z -> bool.   (* |a - b| < 1e-3 on the decoded distances *)

(* phase 3, one item of the old Vectors store *)
Definition migrate_one (dedup : bool) (act : Z) (mig : list ((N * vec) * (Z * Z)))
           (acc : list centry * list vent) (e : vent) : list centry * list vent :=
  let '(c, nv) := acc in
  let id := ve_id e in
  let '(c1, go) :=
    if negb dedup then (c, true)
    else match cfind c id with
         | Some (k, _) =>
             if ck_del k then (cremove c id, false)
             else let '(cc, dd) := resolve act k in (c, (cc =? ve_cid e) && close dd (ve_dist e))
         | None => (c, false)
         end in
  if go then
    let a := alookup idvec_eqb mig (id, ve_vec e) (-1, MAXF) in
    let nv1 := vadd nv (mkVE (fst a) (snd a) id false (ve_vec e)) in
    match cfind c1 id with
    | Some (k, p) =>
        let k1 := if ck_nver k =? act
                  then mkCK (ck_ncid k) (ck_ndist k) (ck_nver k) (ck_del k) (ck_ncid k) (ck_ndist k) (ck_nver k)
                  else k in
        let k2 := mkCK (ck_cid k1) (ck_dist k1) (ck_ver k1) (ck_del k1) (fst a) (snd a) (act + 1) in
        (cset c1 id (k2, p), nv1)
    | None => (c1, nv1)
    end
  else (c1, nv).

(* Optimize = Consolidate (staging sessions only); phase 3 over the old Vectors store in key order;
   phase 4: flip the active version, drop the old index and the TempVectors store *)
Definition optimize (buf dedup : bool) (s : st) (cs : list (N * (Z * Z))) (mig : list ((N * vec) * (Z * Z))) : st :=
  let s1 := if buf then consolidate dedup s cs else s in
  let '(c2, nv) := fold_left (migrate_one dedup (active s1) mig) (vectors s1) (content s1, []) in
  mkSt (active s1 + 1) c2 nv [].

(* ---- operations and runs *)
Inductive op :=
| OUpsert (buf dedup : bool) (id : N) (v : vec) (p : N) (a : Z * Z)
| ODelete (buf : bool) (id : N)
| OOptimize (buf dedup : bool) (cs : list (N * (Z * Z))) (mig : list ((N * vec) * (Z * Z))).

Definition step (s : st) (o : op) : st :=
  match o with
  | OUpsert buf dedup id v p a => upsert buf dedup s id v p a
  | ODelete buf id => delete buf s id
  | OOptimize buf dedup cs mig => optimize buf dedup s cs mig
  end.
Definition run (s : st) (ops : list op) : st := fold_left step ops s.
End WithClose.

(* ---- reference semantics: id |-> (vector, payload) *)
Definition rstate := list (N * (vec * N)).
Fixpoint rfind (r : rstate) (id : N) : option (vec * N) :=
  match r with
  | [] => None
  | (i, v) :: t => if N.eqb i id then Some v else rfind t id
  end.
Definition rstep (r : rstate) (o : op) : rstate :=
  match o with
  | OUpsert _ _ id v p _ => (id, (v, p)) :: r
  | ODelete _ id => filter (fun e => negb (N.eqb (fst e) id)) r
  | OOptimize _ _ _ _ => r
  end.
Definition rrun (r : rstate) (ops : list op) : rstate := fold_left rstep ops r.

(* the ids Content holds as live, in key order (what a full Content scan reports) *)
Definition live_ids (s : st) : list N :=
  map fst (filter (fun e => negb (ck_del (fst (snd e)))) (content s)).

(* ---- the classes of runs the theorems speak about *)
Definition op_index_dedup (o : op) : bool :=
  match o with
  | OUpsert buf dedup _ _ _ a => negb buf && dedup && negb (fst a =? 0)
  | ODelete buf _ => negb buf
  | OOptimize buf dedup _ mig => negb buf && dedup && forallb (fun x => negb (fst (snd x) =? 0)) mig
  end.

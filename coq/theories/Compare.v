(* Model of /repo/btree/comparer.go: Compare and CoerceComparer.
   Definitions only (proofs are in CompareProofs.v).

   A Go `any` key is a value of type [key]. Numbers keep their Go type; a failed
   type assertion `y1, _ := anyY.(T)` yields T's zero value, exactly as in the code.
   Strings, []byte and UUIDs are byte lists (Go compares strings bytewise);
   float keys are IEEE bit patterns (FloatCmp.v); time.Time is (Unix seconds,
   nanosecond) of the wall clock, without monotonic reading. *)
From Coq Require Import List ZArith NArith Bool.
From SopVerif Require Import FloatCmp.
Import ListNotations.
Local Open Scope Z_scope.

Inductive ity := TI | TI8 | TI16 | TI32 | TI64 | TU | TU8 | TU16 | TU32 | TU64 | TUptr.

Definition ity_eqb (a b : ity) : bool :=
  match a, b with
  | TI, TI | TI8, TI8 | TI16, TI16 | TI32, TI32 | TI64, TI64
  | TU, TU | TU8, TU8 | TU16, TU16 | TU32, TU32 | TU64, TU64 | TUptr, TUptr => true
  | _, _ => false
  end.

Definition ity_min (t : ity) : Z :=
  match t with
  | TI | TI64 => - 2 ^ 63 | TI8 => - 2 ^ 7 | TI16 => - 2 ^ 15 | TI32 => - 2 ^ 31
  | _ => 0
  end.
Definition ity_max (t : ity) : Z :=
  match t with
  | TI | TI64 => 2 ^ 63 - 1 | TI8 => 2 ^ 7 - 1 | TI16 => 2 ^ 15 - 1 | TI32 => 2 ^ 31 - 1
  | TU | TU64 | TUptr => 2 ^ 64 - 1 | TU8 => 2 ^ 8 - 1 | TU16 => 2 ^ 16 - 1 | TU32 => 2 ^ 32 - 1
  end.

Inductive key :=
| KNil                                 (* untyped nil interface *)
| KBool (b : bool)                     (* no case in the type switch: default branch *)
| KOther (repr : list N)               (* any other value without a case and without a Comparer method; repr = its %v text *)
| KInt (t : ity) (v : Z)
| KF32 (bits : N)
| KF64 (bits : N)
| KStr (s : list N)
| KGUuid (b : list N)                  (* github.com/google/uuid.UUID *)
| KSUuid (b : list N)                  (* sop.UUID *)
| KTime (sec nsec : Z)
| KAny (l : list key)                  (* []any *)
| KBytes (b : list N)
| KStrs (l : list (list N))
| KInts (l : list Z)
| KF64s (l : list N)
| KF32s (l : list N).

(* ---- primitive comparisons *)

Definition zcmp (a b : Z) : Z :=            (* cmp.Compare on an integer type *)
  match Z.compare a b with Lt => -1 | Eq => 0 | Gt => 1 end.
Definition ncmp (a b : N) : Z := zcmp (Z.of_N a) (Z.of_N b).

Section Slice.
  Context {A : Type} (c : A -> A -> Z).
  (* for i < minLen { if c := cmp(x[i], y[i]); c != 0 { return c } }; return cmp.Compare(lenX, lenY) *)
  Fixpoint slice_cmp (a b : list A) : Z :=
    match a, b with
    | [], [] => 0
    | [], _ :: _ => -1
    | _ :: _, [] => 1
    | x :: a', y :: b' => let r := c x y in if r =? 0 then slice_cmp a' b' else r
    end.
End Slice.

Definition bytes_cmp : list N -> list N -> Z := slice_cmp ncmp.   (* bytes.Compare, string comparison *)

Definition time_cmp (a b : Z * Z) : Z :=     (* time.Time.Compare without monotonic readings *)
  if fst a =? fst b then zcmp (snd a) (snd b) else zcmp (fst a) (fst b).

(* ---- type assertions with zero-value fallback *)

Definition zero_uuid16 : list N := repeat 0%N 16.
Definition zero_time : Z * Z := (-62135596800, 0).    (* time.Time{}: January 1, year 1 UTC *)

Definition as_int (t : ity) (y : key) : Z := match y with KInt t' v => if ity_eqb t t' then v else 0 | _ => 0 end.
Definition as_f32 (y : key) : N := match y with KF32 b => b | _ => 0%N end.
Definition as_f64 (y : key) : N := match y with KF64 b => b | _ => 0%N end.
Definition as_str (y : key) : list N := match y with KStr s => s | _ => [] end.
Definition as_guuid (y : key) : list N := match y with KGUuid b => b | _ => zero_uuid16 end.
Definition as_suuid (y : key) : list N := match y with KSUuid b => b | _ => zero_uuid16 end.
Definition as_time (y : key) : Z * Z := match y with KTime s n => (s, n) | _ => zero_time end.
Definition as_any (y : key) : list key := match y with KAny l => l | _ => [] end.
Definition as_bytes (y : key) : list N := match y with KBytes b => b | _ => [] end.
Definition as_strs (y : key) : list (list N) := match y with KStrs l => l | _ => [] end.
Definition as_ints (y : key) : list Z := match y with KInts l => l | _ => [] end.
Definition as_f64s (y : key) : list N := match y with KF64s l => l | _ => [] end.
Definition as_f32s (y : key) : list N := match y with KF32s l => l | _ => [] end.

(* ---- the comparer kinds CoerceComparer can return (one closure per case) *)
Inductive ckind :=
| CInt (t : ity) | CF32 | CF64 | CStr | CGUuid | CSUuid | CTime | CAny | CBytes | CStrs | CInts | CF64s | CF32s | CDefault.

Definition coerce (x : key) : ckind :=
  match x with
  | KInt t _ => CInt t | KF32 _ => CF32 | KF64 _ => CF64 | KStr _ => CStr
  | KGUuid _ => CGUuid | KSUuid _ => CSUuid | KTime _ _ => CTime | KAny _ => CAny
  | KBytes _ => CBytes | KStrs _ => CStrs | KInts _ => CInts | KF64s _ => CF64s | KF32s _ => CF32s
  | KNil | KBool _ | KOther _ => CDefault
  end.

Section WithFmt.
  (* fmt.Sprintf("%v", v) for the values whose rendering is not modelled (numbers,
     ids, times, slices); the theorems hold for every such function, the
     correspondence check instantiates it with the renderings the implementation produced *)
  Variable fmtv : key -> list N.

  Definition sprintv (k : key) : list N :=
    match k with
    | KStr s => s
    | KBool true => [116; 114; 117; 101]%N            (* "true" *)
    | KBool false => [102; 97; 108; 115; 101]%N       (* "false" *)
    | KOther r => r
    | _ => fmtv k
    end.

  (* the `default:` branch (Comparer implementations are not modelled) *)
  Definition default_cmp (x y : key) : Z :=
    match x, y with
    | KNil, KNil => 0
    | KNil, _ => -1
    | _, KNil => 1
    | _, _ => bytes_cmp (sprintv x) (sprintv y)
    end.

  (* func Compare(anyX, anyY any) int : type switch on anyX only *)
  Fixpoint compare (x y : key) {struct x} : Z :=
    match x with
    | KInt t v => zcmp v (as_int t y)
    | KF32 b => fcmp32 b (as_f32 y)
    | KF64 b => fcmp64 b (as_f64 y)
    | KStr s => bytes_cmp s (as_str y)
    | KGUuid b => bytes_cmp b (as_guuid y)
    | KSUuid b => bytes_cmp b (as_suuid y)
    | KTime s n => time_cmp (s, n) (as_time y)
    | KAny l => slice_cmp compare l (as_any y)
    | KBytes b => bytes_cmp b (as_bytes y)
    | KStrs l => slice_cmp bytes_cmp l (as_strs y)
    | KInts l => slice_cmp zcmp l (as_ints y)
    | KF64s l => slice_cmp fcmp64 l (as_f64s y)
    | KF32s l => slice_cmp fcmp32 l (as_f32s y)
    | KNil | KBool _ | KOther _ => default_cmp x y
    end.

  (* the closure CoerceComparer returned, applied to (x, y): both sides are asserted *)
  Definition apply_ck (c : ckind) (x y : key) : Z :=
    match c with
    | CInt t => zcmp (as_int t x) (as_int t y)
    | CF32 => fcmp32 (as_f32 x) (as_f32 y)
    | CF64 => fcmp64 (as_f64 x) (as_f64 y)
    | CStr => bytes_cmp (as_str x) (as_str y)
    | CGUuid => bytes_cmp (as_guuid x) (as_guuid y)
    | CSUuid => bytes_cmp (as_suuid x) (as_suuid y)
    | CTime => time_cmp (as_time x) (as_time y)
    | CAny => slice_cmp compare (as_any x) (as_any y)
    | CBytes => bytes_cmp (as_bytes x) (as_bytes y)
    | CStrs => slice_cmp bytes_cmp (as_strs x) (as_strs y)
    | CInts => slice_cmp zcmp (as_ints x) (as_ints y)
    | CF64s => slice_cmp fcmp64 (as_f64s x) (as_f64s y)
    | CF32s => slice_cmp fcmp32 (as_f32s x) (as_f32s y)
    | CDefault => default_cmp x y
    end.
End WithFmt.

(* ---- key types: "x is a Go value of this type". []any is typed per position:
   element i has type (nth i ts rest) - covers homogeneous slices (ts = []) and
   composite keys such as []any{name, age}. *)
Inductive kty :=
| TyNil | TyBool | TyOther | TyInt (t : ity) | TyF32 | TyF64 | TyStr | TyGUuid | TySUuid | TyTime
| TyBytes | TyStrs | TyInts | TyF64s | TyF32s
| TyAny (ts : list kty) (rest : kty).

Fixpoint has_ty (k : key) (ty : kty) {struct k} : bool :=
  match k, ty with
  | KNil, TyNil | KBool _, TyBool | KOther _, TyOther | KF32 _, TyF32 | KF64 _, TyF64 | KStr _, TyStr
  | KGUuid _, TyGUuid | KSUuid _, TySUuid | KTime _ _, TyTime | KBytes _, TyBytes | KStrs _, TyStrs
  | KInts _, TyInts | KF64s _, TyF64s | KF32s _, TyF32s => true
  | KInt t _, TyInt t' => ity_eqb t t'
  | KAny l, TyAny ts rest =>
      (fix go (l : list key) (ts : list kty) {struct l} : bool :=
         match l with
         | [] => true
         | a :: l' => match ts with
                      | [] => has_ty a rest && go l' []
                      | t :: ts' => has_ty a t && go l' ts'
                      end
         end) l ts
  | _, _ => false
  end.

(* value ranges of the Go types (needed only for faithfulness statements, not for the order laws) *)
Definition byte_ok (b : N) : bool := (b <? 256)%N.
Fixpoint wf_key (k : key) : bool :=
  match k with
  | KNil | KBool _ => true
  | KOther r | KStr r | KBytes r => forallb byte_ok r
  | KInt t v => (ity_min t <=? v) && (v <=? ity_max t)
  | KF32 b => (b <? 2 ^ 32)%N
  | KF64 b => (b <? 2 ^ 64)%N
  | KGUuid b | KSUuid b => Nat.eqb (length b) 16 && forallb byte_ok b
  | KTime s n => (0 <=? n) && (n <? 1000000000)
  | KAny l => forallb wf_key l
  | KStrs l => forallb (forallb byte_ok) l
  | KInts l => forallb (fun v => (ity_min TI <=? v) && (v <=? ity_max TI)) l
  | KF64s l => forallb (fun b => (b <? 2 ^ 64)%N) l
  | KF32s l => forallb (fun b => (b <? 2 ^ 32)%N) l
  end.

(* ---- decidable equality on keys and the table-driven %v oracle used by the correspondence check *)
Fixpoint list_eqb {A} (e : A -> A -> bool) (a b : list A) : bool :=
  match a, b with
  | [], [] => true
  | x :: a', y :: b' => e x y && list_eqb e a' b'
  | _, _ => false
  end.

Fixpoint key_eqb (x y : key) {struct x} : bool :=
  match x, y with
  | KNil, KNil => true
  | KBool a, KBool b => Bool.eqb a b
  | KOther a, KOther b | KStr a, KStr b | KGUuid a, KGUuid b | KSUuid a, KSUuid b | KBytes a, KBytes b
  | KF64s a, KF64s b | KF32s a, KF32s b => list_eqb N.eqb a b
  | KInt t a, KInt t' b => ity_eqb t t' && (a =? b)
  | KF32 a, KF32 b | KF64 a, KF64 b => N.eqb a b
  | KTime s n, KTime s' n' => (s =? s') && (n =? n')
  | KAny l, KAny m =>
      (fix go (l m : list key) {struct l} : bool :=
         match l, m with
         | [], [] => true
         | a :: l', b :: m' => key_eqb a b && go l' m'
         | _, _ => false
         end) l m
  | KStrs a, KStrs b => list_eqb (list_eqb N.eqb) a b
  | KInts a, KInts b => list_eqb Z.eqb a b
  | _, _ => false
  end.

Definition fmt_of_table (tbl : list (key * list N)) (k : key) : list N :=
  match find (fun p => key_eqb (fst p) k) tbl with
  | Some p => snd p
  | None => []
  end.

(* Order laws of a three-way comparison function (Go style: -1 / 0 / +1) on a
   domain P, and the facts derived from them. Shared by the comparer proofs. *)
From Coq Require Import List ZArith Lia.
Import ListNotations.
Local Open Scope Z_scope.

Definition sgn3 (r : Z) : Prop := r = -1 \/ r = 0 \/ r = 1.

Record cmp_laws {A : Type} (P : A -> Prop) (c : A -> A -> Z) : Prop := mkLaws {
  cl_range : forall a b, P a -> P b -> sgn3 (c a b);
  cl_refl : forall a, P a -> c a a = 0;
  cl_antisym : forall a b, P a -> P b -> c a b = - c b a;
  cl_trans : forall a b d, P a -> P b -> P d -> c a b <= 0 -> c b d <= 0 -> c a d <= 0
}.

Section Derived.
  Context {A : Type} (P : A -> Prop) (c : A -> A -> Z) (L : cmp_laws P c).

  (* equal keys are interchangeable on the left ... *)
  Lemma cl_eq_l : forall a b d, P a -> P b -> P d -> c a b = 0 -> c a d = c b d.
  Proof.
    intros a b d Ha Hb Hd Hab.
    pose proof (cl_antisym P c L a b Ha Hb) as Aab.
    pose proof (cl_antisym P c L a d Ha Hd) as Aad.
    pose proof (cl_antisym P c L b d Hb Hd) as Abd.
    pose proof (cl_range P c L a d Ha Hd) as Rad.
    pose proof (cl_range P c L b d Hb Hd) as Rbd.
    pose proof (cl_trans P c L a b d Ha Hb Hd) as T1.
    pose proof (cl_trans P c L b a d Hb Ha Hd) as T2.
    pose proof (cl_trans P c L d a b Hd Ha Hb) as T3.
    pose proof (cl_trans P c L d b a Hd Hb Ha) as T4.
    unfold sgn3 in *. lia.
  Qed.

  (* ... and on the right *)
  Lemma cl_eq_r : forall a b d, P a -> P b -> P d -> c b d = 0 -> c a b = c a d.
  Proof.
    intros a b d Ha Hb Hd Hbd.
    pose proof (cl_antisym P c L a b Ha Hb) as Aab.
    pose proof (cl_antisym P c L a d Ha Hd) as Aad.
    pose proof (cl_antisym P c L b d Hb Hd) as Abd.
    pose proof (cl_eq_l b d a Hb Hd Ha Hbd) as E.
    lia.
  Qed.

  (* strict transitivity: a <= b <= d and a == d force a == b == d *)
  Lemma cl_strict : forall a b d, P a -> P b -> P d -> c a b <= 0 -> c b d <= 0 -> c a d = 0 ->
    c a b = 0 /\ c b d = 0.
  Proof.
    intros a b d Ha Hb Hd Hab Hbd Had.
    pose proof (cl_antisym P c L a d Ha Hd) as Aad.
    pose proof (cl_antisym P c L b d Hb Hd) as Abd.
    pose proof (cl_antisym P c L a b Ha Hb) as Aab.
    assert (Hda : c d a = 0) by (pose proof (cl_antisym P c L d a Hd Ha); lia).
    pose proof (cl_eq_l d a b Hd Ha Hb Hda) as E.
    pose proof (cl_antisym P c L d b Hd Hb) as Adb.
    lia.
  Qed.

  Lemma cl_lt_trans : forall a b d, P a -> P b -> P d -> c a b < 0 -> c b d <= 0 -> c a d < 0.
  Proof.
    intros a b d Ha Hb Hd Hab Hbd.
    pose proof (cl_trans P c L a b d Ha Hb Hd ltac:(lia) Hbd) as T.
    destruct (Z.eq_dec (c a d) 0) as [E|E]; [|lia].
    destruct (cl_strict a b d Ha Hb Hd ltac:(lia) Hbd E). lia.
  Qed.

  Lemma cl_le_lt_trans : forall a b d, P a -> P b -> P d -> c a b <= 0 -> c b d < 0 -> c a d < 0.
  Proof.
    intros a b d Ha Hb Hd Hab Hbd.
    pose proof (cl_trans P c L a b d Ha Hb Hd Hab ltac:(lia)) as T.
    destruct (Z.eq_dec (c a d) 0) as [E|E]; [|lia].
    destruct (cl_strict a b d Ha Hb Hd Hab ltac:(lia) E). lia.
  Qed.
End Derived.

(* a comparison that factors through a projection inherits the laws *)
Lemma laws_via {A B : Type} (P : A -> Prop) (Q : B -> Prop) (f : A -> B) (cA : A -> A -> Z) (cB : B -> B -> Z) :
  (forall a, P a -> Q (f a)) ->
  (forall a b, P a -> P b -> cA a b = cB (f a) (f b)) ->
  cmp_laws Q cB -> cmp_laws P cA.
Proof.
  intros HQ Heq L. constructor.
  - intros a b Ha Hb. rewrite Heq by assumption. apply (cl_range Q cB L); auto.
  - intros a Ha. rewrite Heq by assumption. apply (cl_refl Q cB L); auto.
  - intros a b Ha Hb. rewrite !Heq by assumption. apply (cl_antisym Q cB L); auto.
  - intros a b d Ha Hb Hd. rewrite !Heq by assumption. apply (cl_trans Q cB L); auto.
Qed.

Lemma laws_weaken {A : Type} (P Q : A -> Prop) (c : A -> A -> Z) :
  (forall a, P a -> Q a) -> cmp_laws Q c -> cmp_laws P c.
Proof. intros H L. apply (laws_via P Q (fun a => a) c c); auto. Qed.

(* reversing a comparison (descending sort order) keeps the laws *)
Lemma laws_neg {A : Type} (P : A -> Prop) (c : A -> A -> Z) :
  cmp_laws P c -> cmp_laws P (fun a b => - c a b).
Proof.
  intros L. constructor.
  - intros a b Ha Hb. pose proof (cl_range P c L a b Ha Hb). unfold sgn3 in *. lia.
  - intros a Ha. rewrite (cl_refl P c L) by assumption. reflexivity.
  - intros a b Ha Hb. rewrite (cl_antisym P c L a b) by assumption. lia.
  - intros a b d Ha Hb Hd H1 H2.
    pose proof (cl_antisym P c L a b Ha Hb). pose proof (cl_antisym P c L b d Hb Hd).
    pose proof (cl_antisym P c L a d Ha Hd).
    pose proof (cl_trans P c L d b a Hd Hb Ha). lia.
Qed.

(* Lemmas about the registry block I/O model (BlockIO.v): checksum rule, recovery invariant,
   crash points of an update, lock-free readers, corruption reporting. *)
From Coq Require Import List ZArith NArith Bool Arith Lia ZifyBool ZifyNat ZifyN.
From SopVerif Require Import Lib.Bytes Lib.BytesProofs Gen.Consts BlockIO.
Import ListNotations.
Ltac Zify.zify_post_hook ::= Z.div_mod_to_equations.

(* ---------------------------------------------------------------- sizes *)
Lemma BSZ_val : BSZ = 4096%nat. Proof. reflexivity. Qed.
Lemma DSZ_val : DSZ = 4092%nat. Proof. reflexivity. Qed.
Lemma HSZ_val : HSZ = 62%nat. Proof. reflexivity. Qed.
Lemma BSZ_DSZ : (DSZ + 4 = BSZ)%nat. Proof. reflexivity. Qed.
Lemma BSZ_pos : (BSZ <> 0)%nat. Proof. rewrite BSZ_val. discriminate. Qed.
Lemma BSZ_ge4 : (4 <= BSZ)%nat. Proof. rewrite BSZ_val. lia. Qed.
Global Opaque BSZ DSZ HSZ NSLOT.

(* ---------------------------------------------------------------- byte lists *)
Lemma list_eqb_eq a b : list_eqb a b = true <-> a = b.
Proof.
  revert b; induction a as [|x a IH]; intros [|y b]; cbn [list_eqb]; split; intros H;
    try reflexivity; try discriminate.
  - apply andb_true_iff in H. destruct H as [Hx Hr]. apply N.eqb_eq in Hx. apply IH in Hr. now subst.
  - inversion H; subst. apply andb_true_iff. split; [apply N.eqb_refl|now apply IH].
Qed.
Lemma list_eqb_neq a b : list_eqb a b = false -> a <> b.
Proof. intros H E. apply list_eqb_eq in E. congruence. Qed.

Lemma is_zero_app a b : is_zero (a ++ b) = is_zero a && is_zero b.
Proof. unfold is_zero. apply forallb_app. Qed.

Lemma le_val_le_bytes_mod n v : le_val (le_bytes n v) = (v mod 256 ^ N.of_nat n)%N.
Proof.
  revert v; induction n as [|n IH]; intros v.
  - cbn. now rewrite N.mod_1_r.
  - cbn [le_bytes le_val]. rewrite IH, Nat2N.inj_succ, N.pow_succ_r'.
    rewrite N.mod_mul_r by (try discriminate; apply N.pow_nonzero; discriminate). reflexivity.
Qed.

(* ---------------------------------------------------------------- mixtures *)
Lemma mixture_length m a b : mixture m a b -> length m = length a /\ length m = length b.
Proof. induction 1; cbn [length]; lia. Qed.

Lemma mixture_left a : forall b, length a = length b -> mixture a a b.
Proof.
  induction a as [|x a IH]; intros [|y b] H; try discriminate; constructor.
  apply IH. now inversion H.
Qed.
Lemma mixture_right a : forall b, length a = length b -> mixture b a b.
Proof.
  induction a as [|x a IH]; intros [|y b] H; try discriminate; constructor.
  apply IH. now inversion H.
Qed.
Lemma mixture_same m a : mixture m a a -> m = a.
Proof.
  remember a as a' eqn:E in |- * at 2. intros H. revert E.
  induction H as [|x y m a0 b0 H IH|x y m a0 b0 H IH]; intros E; [reflexivity| |];
    inversion E; subst; f_equal; now apply IH.
Qed.
(* splicing two mixtures of the same pair at any position is a mixture of that pair *)
Lemma mixture_mix m1 a b : mixture m1 a b -> forall m2 k, mixture m2 a b -> mixture (mix k m1 m2) a b.
Proof.
  unfold mix. induction 1 as [|x y m a b H IH|x y m a b H IH]; intros m2 k H2.
  - inversion H2; subst. destruct k; constructor.
  - destruct k as [|k]; [exact H2|]. inversion H2; subst; cbn [firstn skipn app]; constructor; now apply IH.
  - destruct k as [|k]; [exact H2|]. inversion H2; subst; cbn [firstn skipn app]; constructor; now apply IH.
Qed.
Lemma mixture_mix_new k a b : length a = length b -> mixture (mix k b a) a b.
Proof. intros H. apply mixture_mix; [now apply mixture_right|now apply mixture_left]. Qed.
Lemma mixture_mix_old k m a b : mixture m a b -> mixture (mix k a m) a b.
Proof.
  intros H. apply mixture_mix; [|exact H]. apply mixture_left.
  destruct (mixture_length _ _ _ H). lia.
Qed.
Lemma detects_same crc a : detects crc a a.
Proof. intros m Hm _. left. now apply mixture_same. Qed.

Lemma mix_all k a b : (length a <= k)%nat -> length a = length b -> mix k a b = a.
Proof.
  intros Hk Hl. unfold mix. rewrite firstn_all2 by lia. rewrite skipn_all2 by lia. apply app_nil_r.
Qed.
Lemma mix_0 a b : mix 0 a b = b.
Proof. reflexivity. Qed.

(* ---------------------------------------------------------------- checksum rule *)
Lemma valid_length crc b : valid crc b = true -> (4 <= length b)%nat.
Proof. unfold valid. intros H. apply andb_true_iff in H. destruct H as [H _]. now apply Nat.leb_le in H. Qed.

Lemma length_marshal crc data : length (marshal crc data) = (length data + 4)%nat.
Proof.
  unfold marshal. destruct (is_zero data); rewrite app_length; [reflexivity|].
  now rewrite le_bytes_length.
Qed.

Lemma valid_marshal crc data : valid crc (marshal crc data) = true.
Proof.
  unfold valid. rewrite length_marshal. apply andb_true_iff. split; [apply Nat.leb_le; lia|].
  unfold marshal. destruct (is_zero data) eqn:Hz.
  - rewrite is_zero_app, Hz. reflexivity.
  - apply orb_true_iff. right. apply N.eqb_eq.
    replace (length data + 4 - 4)%nat with (length data) by lia.
    rewrite firstn_app, firstn_all, Nat.sub_diag, firstn_O, app_nil_r.
    rewrite skipn_app, skipn_all, Nat.sub_diag, skipn_O. cbn [app].
    rewrite le_val_le_bytes_mod. change (256 ^ N.of_nat 4)%N with 4294967296%N.
    now rewrite N.mod_mod by discriminate.
Qed.

Lemma length_new_block crc buf off data :
  length buf = BSZ -> slot_ok off data -> length (new_block crc buf off data) = BSZ.
Proof.
  intros Hb [Ho Hd]. unfold new_block. rewrite length_marshal, splice_length.
  - rewrite firstn_length_le by (rewrite Hb, <- BSZ_DSZ; lia). apply BSZ_DSZ.
  - rewrite firstn_length_le by (rewrite Hb, <- BSZ_DSZ; lia). lia.
Qed.
Lemma valid_new_block crc buf off data : valid crc (new_block crc buf off data) = true.
Proof. apply valid_marshal. Qed.

Lemma check_cow_valid crc a : length a = BSZ -> valid crc a = true -> check_cow crc (Some a) = CowValid a.
Proof.
  intros Hl Hv. unfold check_cow. rewrite Hl, Nat.eqb_refl.
  destruct (Nat.eqb_spec BSZ 0) as [E|_]; [now apply BSZ_pos in E|]. cbn [negb]. now rewrite Hv.
Qed.
Lemma check_cow_CowValid crc c x : check_cow crc c = CowValid x -> c = Some x /\ length x = BSZ /\ valid crc x = true.
Proof.
  unfold check_cow. destruct c as [c|]; [|discriminate].
  destruct (length c =? 0)%nat; [discriminate|].
  destruct (Nat.eqb_spec (length c) BSZ) as [E|_]; cbn [negb]; [|discriminate].
  destruct (valid crc c) eqn:Hv; [|discriminate]. intros H; inversion H; subst. auto.
Qed.
Lemma cow_valid_false crc c : cow_valid crc c = false -> forall x, check_cow crc c <> CowValid x.
Proof. unfold cow_valid. intros H x E. rewrite E in H. discriminate. Qed.

(* ---------------------------------------------------------------- reader on a recoverable state *)
Lemma Rec_stable crc v d : length v = BSZ -> valid crc v = true -> blk d = v -> Rec crc v v d.
Proof. intros. unfold Rec. auto 10. Qed.

Lemma Rec_length crc a b d : Rec crc a b d -> length (blk d) = BSZ.
Proof.
  intros (Ha & Hb & _ & _ & [E|[E|[Hm _]]]); [now rewrite E|now rewrite E|].
  destruct (mixture_length _ _ _ Hm). lia.
Qed.

Lemma read_rec crc fx a b d : Rec crc a b d -> detects crc a b ->
  exists v d', read_restore crc fx d = (d', ROk v) /\ (v = a \/ v = b) /\ blk d' = v /\ valid crc v = true
               /\ length v = BSZ.
Proof.
  intros HR Hdet. pose proof (Rec_length _ _ _ _ HR) as Hlen.
  destruct HR as (Ha & Hb & Hva & Hvb & Hcase).
  unfold read_restore. rewrite Hlen, Nat.eqb_refl. cbn [negb].
  destruct (valid crc (blk d)) eqn:Hv.
  - exists (blk d), (mkDisk (blk d) None). split; [reflexivity|]. split.
    + destruct Hcase as [E|[E|[Hm _]]]; auto.
    + auto.
  - destruct Hcase as [E|[E|[Hm Hc]]]; [rewrite E in Hv; congruence|rewrite E in Hv; congruence|].
    rewrite Hc, (check_cow_valid crc a Ha Hva). exists a, (mkDisk a (Some a)). auto 10.
Qed.

(* a read-only reader of a recoverable state returns a or b as well; it leaves the state
   recoverable (it only removes a backup next to a valid block) and does not repair a torn block *)
Lemma read_rec_ro crc fx a b d : Rec crc a b d -> detects crc a b ->
  exists v d', read_restore_ro crc fx d = (d', ROk v) /\ (v = a \/ v = b) /\ valid crc v = true /\
               Rec crc a b d' /\ (valid crc (blk d) = false -> d' = d /\ cow d = Some v).
Proof.
  intros HR Hdet. pose proof (Rec_length _ _ _ _ HR) as Hlen. pose proof HR as HR0.
  destruct HR as (Ha & Hb & Hva & Hvb & Hcase).
  unfold read_restore_ro. rewrite Hlen, Nat.eqb_refl. cbn [negb].
  destruct (valid crc (blk d)) eqn:Hv.
  - assert (Hab : blk d = a \/ blk d = b) by (destruct Hcase as [E|[E|[Hm _]]]; auto).
    exists (blk d), (mkDisk (blk d) None). split; [reflexivity|]. split; [exact Hab|]. split; [exact Hv|].
    split; [|discriminate]. unfold Rec. cbn [blk cow]. repeat (split; [assumption|]).
    destruct Hab; auto.
  - destruct Hcase as [E|[E|[Hm Hc]]]; [rewrite E in Hv; congruence|rewrite E in Hv; congruence|].
    rewrite Hc, (check_cow_valid crc a Ha Hva). exists a, d. auto 10.
Qed.

Lemma Rec_weaken crc a b d : Rec crc a a d -> length b = BSZ -> valid crc b = true -> Rec crc a b d.
Proof.
  intros (Ha & _ & Hva & _ & Hcase) Hb Hvb. unfold Rec. repeat (split; [assumption|]).
  destruct Hcase as [E|[E|[Hm _]]]; auto. left. now apply mixture_same.
Qed.

(* dying inside the restore write keeps the state recoverable between the same two blocks *)
Lemma restore_crash_rec crc a b d k : Rec crc a b d -> Rec crc a b (restore_crash crc d k).
Proof.
  intros HR. pose proof (Rec_length _ _ _ _ HR) as Hlen.
  destruct HR as (Ha & Hb & Hva & Hvb & Hcase). unfold restore_crash.
  rewrite Hlen, Nat.eqb_refl. cbn [andb].
  destruct (valid crc (blk d)) eqn:Hv; cbn [negb]; [unfold Rec; auto 10|].
  destruct Hcase as [E|[E|[Hm Hc]]]; [rewrite E in Hv; congruence|rewrite E in Hv; congruence|].
  rewrite Hc, (check_cow_valid crc a Ha Hva). unfold Rec. cbn [blk cow].
  repeat (split; [assumption|]). right. right. split; [|reflexivity]. now apply mixture_mix_old.
Qed.

(* every other crash point of an update leaves a state recoverable between the content v the
   update read and the block nb it was writing *)
Lemma crash_rec crc fx a b d off data p : Rec crc a b d -> detects crc a b -> slot_ok off data ->
  (forall k, p <> WP_restore k) ->
  exists v, (v = a \/ v = b) /\ Rec crc v (new_block crc v off data) (crash_state crc fx d off data p)
            /\ (p = WP_done -> crash_state crc fx d off data p = mkDisk (new_block crc v off data) None).
Proof.
  intros HR Hdet Hslot Hp.
  destruct (read_rec crc fx a b d HR Hdet) as (v & d' & Hrd & Hv & Hblk & Hvalid & Hlen).
  exists v. split; [exact Hv|].
  assert (Hnl : length (new_block crc v off data) = BSZ) by now apply length_new_block.
  pose proof (valid_new_block crc v off data) as Hnv.
  unfold crash_state. destruct p as [k|k|k|]; [now destruct (Hp k)| | |]; rewrite Hrd; cbv zeta.
  - split; [|discriminate]. unfold Rec. cbn [blk cow]. auto 10.
  - split; [|discriminate]. unfold Rec. cbn [blk cow]. repeat (split; [assumption|]).
    right. right. rewrite Hblk. split; [|reflexivity]. apply mixture_mix_new. lia.
  - split; [|reflexivity]. unfold Rec. cbn [blk cow]. auto 10.
Qed.

(* every crash point of an update of an intact block leaves a state recoverable between the old
   block and the block being written *)
Lemma crash_state_rec_stable crc fx old d off data p :
  length old = BSZ -> valid crc old = true -> blk d = old -> slot_ok off data ->
  Rec crc old (new_block crc old off data) (crash_state crc fx d off data p).
Proof.
  intros Hl Hv Hb Hslot. pose proof (Rec_stable crc old d Hl Hv Hb) as HR.
  assert (Hnl : length (new_block crc old off data) = BSZ) by now apply length_new_block.
  pose proof (valid_new_block crc old off data) as Hnv.
  destruct p as [k|k|k|].
  - cbn [crash_state]. apply Rec_weaken; auto. now apply restore_crash_rec.
  - destruct (crash_rec crc fx old old d off data (WP_cow k) HR (detects_same crc old) Hslot) as (v & Hvv & HR' & _);
      [discriminate|]. assert (v = old) by (destruct Hvv; assumption). now subst v.
  - destruct (crash_rec crc fx old old d off data (WP_block k) HR (detects_same crc old) Hslot) as (v & Hvv & HR' & _);
      [discriminate|]. assert (v = old) by (destruct Hvv; assumption). now subst v.
  - destruct (crash_rec crc fx old old d off data WP_done HR (detects_same crc old) Hslot) as (v & Hvv & HR' & _);
      [discriminate|]. assert (v = old) by (destruct Hvv; assumption). now subst v.
Qed.

(* C22, crash clause: an update of a recoverable block dies at any point (or completes); the next
   reader returns the content before the update or the block the update was writing, and leaves
   exactly that block on disk *)
Lemma crash_then_read crc fx a b d off data p :
  Rec crc a b d -> detects crc a b -> slot_ok off data ->
  (forall v, v = a \/ v = b -> detects crc v (new_block crc v off data)) ->
  exists old, (old = a \/ old = b) /\
  exists v d', read_restore crc fx (crash_state crc fx d off data p) = (d', ROk v) /\
               (v = old \/ v = new_block crc old off data) /\ blk d' = v /\ valid crc v = true /\
               (p = WP_done -> v = new_block crc old off data).
Proof.
  intros HR Hdet Hslot Hdet2.
  destruct p as [k|k|k|].
  - (* restore write torn: still recoverable between a and b *)
    pose proof (restore_crash_rec crc a b d k HR) as HR'.
    destruct (read_rec crc fx a b _ HR' Hdet) as (v & d' & Hrd & Hv & Hblk & Hvalid & _).
    exists v. split; [exact Hv|]. exists v, d'. cbn [crash_state]. repeat split; auto; discriminate.
  - destruct (crash_rec crc fx a b d off data (WP_cow k) HR Hdet Hslot) as (old & Hold & HR' & _); [discriminate|].
    destruct (read_rec crc fx _ _ _ HR' (Hdet2 old Hold)) as (v & d' & Hrd & Hv & Hblk & Hvalid & _).
    exists old. split; [exact Hold|]. exists v, d'. repeat split; auto; discriminate.
  - destruct (crash_rec crc fx a b d off data (WP_block k) HR Hdet Hslot) as (old & Hold & HR' & _); [discriminate|].
    destruct (read_rec crc fx _ _ _ HR' (Hdet2 old Hold)) as (v & d' & Hrd & Hv & Hblk & Hvalid & _).
    exists old. split; [exact Hold|]. exists v, d'. repeat split; auto; discriminate.
  - destruct (crash_rec crc fx a b d off data WP_done HR Hdet Hslot) as (old & Hold & HR' & Hdone); [discriminate|].
    specialize (Hdone eq_refl).
    destruct (read_rec crc fx _ _ _ HR' (Hdet2 old Hold)) as (v & d' & Hrd & Hv & Hblk & Hvalid & _).
    exists old. split; [exact Hold|]. exists v, d'. repeat split; auto.
    intros _. rewrite Hdone in Hrd. unfold read_restore in Hrd. cbn [blk cow] in Hrd.
    rewrite (length_new_block crc old off data) in Hrd.
    + rewrite Nat.eqb_refl, valid_new_block in Hrd. cbn [negb] in Hrd. now inversion Hrd.
    + destruct HR' as (H1 & _). exact H1.
    + exact Hslot.
Qed.

(* the special case the property statement talks about: the block was intact before the update *)
Lemma crash_then_read_stable crc fx old d off data p :
  length old = BSZ -> valid crc old = true -> blk d = old -> slot_ok off data ->
  detects crc old (new_block crc old off data) ->
  exists v d', read_restore crc fx (crash_state crc fx d off data p) = (d', ROk v) /\
               (v = old \/ v = new_block crc old off data) /\ blk d' = v /\ valid crc v = true /\
               (p = WP_done -> v = new_block crc old off data).
Proof.
  intros Hl Hv Hb Hslot Hdet.
  destruct (crash_then_read crc fx old old d off data p (Rec_stable crc old d Hl Hv Hb) (detects_same crc old) Hslot)
    as (o & Ho & v & d' & H).
  - intros v [E|E]; subst v; exact Hdet.
  - assert (o = old) by (destruct Ho; assumption). subst o. exists v, d'. exact H.
Qed.

(* an update that is not interrupted succeeds and leaves the new block without a backup *)
Lemma update_completes crc fx a b d off data : Rec crc a b d -> detects crc a b -> slot_ok off data ->
  exists old, (old = a \/ old = b) /\ update_block crc fx d off data = (mkDisk (new_block crc old off data) None, UOk).
Proof.
  intros HR Hdet Hslot. destruct (read_rec crc fx a b d HR Hdet) as (v & d' & Hrd & Hv & _).
  exists v. split; [exact Hv|]. unfold update_block. now rewrite Hrd.
Qed.

(* ---------------------------------------------------------------- a reader without the block lock *)
Lemma phase_le_blk_inv k p2 : phase_le (Ph_blk k) p2 = true -> (exists k', p2 = Ph_blk k') \/ p2 = Ph_done.
Proof. destruct p2 as [|j|k'|]; cbn; intros H; try discriminate; eauto. Qed.

Lemma conc_read_cases crc fx old c0 new p1 p2 :
  length old = BSZ -> length new = BSZ -> valid crc old = true -> valid crc new = true ->
  detects crc old new -> phase_le p1 p2 = true ->
  (exists v, conc_read crc fx old c0 new p1 p2 = ROk v /\ (v = old \/ v = new)) \/
  (exists k, p1 = Ph_blk k /\ p2 = Ph_done /\ valid crc (mix k new old) = false /\
             conc_read crc fx old c0 new p1 p2 = if fx then RErr ECorrupt else ROk (mix k new old)).
Proof.
  intros Hlo Hln Hvo Hvn Hdet Hle. unfold conc_read.
  destruct p1 as [|j|k|]; cbn [disk_at blk].
  - rewrite Hvo. left. eauto.
  - rewrite Hvo. left. eauto.
  - destruct (valid crc (mix k new old)) eqn:Hv.
    + left. exists (mix k new old). split; [reflexivity|]. apply Hdet; [|exact Hv].
      apply mixture_mix_new. lia.
    + destruct (phase_le_blk_inv k p2 Hle) as [[k' E]|E]; subst p2; cbn [disk_at cow].
      * rewrite (check_cow_valid crc old Hlo Hvo). left. eauto.
      * right. exists k. cbn [check_cow]. auto.
  - rewrite Hvn. left. eauto.
Qed.

(* a reader whose two steps are not separated by writer steps leaves a recoverable state wherever
   the writer dies *)
Lemma crash_with_atomic_reader_rec crc old c0 new pc :
  length old = BSZ -> length new = BSZ -> valid crc old = true -> valid crc new = true ->
  detects crc old new -> Rec crc old new (crash_with_reader crc old c0 new pc pc).
Proof.
  intros Hlo Hln Hvo Hvn Hdet. unfold crash_with_reader, reader_finish.
  destruct pc as [|j|k|]; cbn [disk_at blk cow].
  - rewrite Hvo. unfold Rec. cbn [blk]. auto 10.
  - rewrite Hvo. unfold Rec. cbn [blk]. auto 10.
  - destruct (valid crc (mix k new old)) eqn:Hv.
    + unfold Rec. cbn [blk]. repeat (split; [assumption|]).
      destruct (Hdet (mix k new old)) as [E|E]; auto. apply mixture_mix_new. lia.
    + rewrite (check_cow_valid crc old Hlo Hvo). unfold Rec. cbn [blk]. auto 10.
  - rewrite Hvn. unfold Rec. cbn [blk]. auto 10.
Qed.

(* a reader that read the block before the writer touched it removes the writer's live backup;
   if the writer then dies inside the block write nothing is left to recover from *)
Lemma crash_with_early_reader crc old c0 new k :
  valid crc old = true ->
  crash_with_reader crc old c0 new Ph_start (Ph_blk k) = mkDisk (mix k new old) None.
Proof. intros Hvo. unfold crash_with_reader, reader_finish. cbn [disk_at blk]. now rewrite Hvo. Qed.

Lemma unrecoverable_read crc fx m : length m = BSZ -> valid crc m = false ->
  read_restore crc fx (mkDisk m None) = (mkDisk m None, if fx then RErr ECorrupt else ROk m).
Proof. intros Hl Hv. unfold read_restore. cbn [blk cow]. now rewrite Hl, Nat.eqb_refl, Hv. Qed.

(* S15: the reader saw the torn block, restores the old image after the writer's block write
   completed; the writer removes the backup and reports success: its update is gone *)
Lemma writer_undone crc old new k : length old = BSZ -> valid crc old = true ->
  valid crc (mix k new old) = false ->
  writer_done_after_reader crc old new (Ph_blk k) = mkDisk old None.
Proof.
  intros Hlo Hvo Hv. unfold writer_done_after_reader, reader_finish. cbn [disk_at blk cow].
  now rewrite Hv, (check_cow_valid crc old Hlo Hvo).
Qed.

(* ---------------------------------------------------------------- corruption reporting (C23) *)
Lemma read_invalid_no_backup crc fx d : length (blk d) = BSZ -> valid crc (blk d) = false ->
  cow_valid crc (cow d) = false ->
  read_restore crc fx d = (d, if fx then RErr ECorrupt else ROk (blk d)).
Proof.
  intros Hl Hv Hc. unfold read_restore. rewrite Hl, Nat.eqb_refl, Hv. cbn [negb].
  unfold cow_valid in Hc. destruct (check_cow crc (cow d)); try reflexivity. discriminate.
Qed.

Lemma reported_patched crc d : length (blk d) = BSZ -> valid crc (blk d) = false -> cow_valid crc (cow d) = false ->
  read_restore crc true d = (d, RErr ECorrupt) /\
  (forall id ideal, reg_get crc true d id ideal = (d, GErr ECorrupt)) /\
  (forall off data, update_block crc true d off data = (d, UErr ECorrupt)) /\
  (forall id ideal data, reg_update crc true d id ideal data = (d, UErr ECorrupt)).
Proof.
  intros Hl Hv Hc. pose proof (read_invalid_no_backup crc true d Hl Hv Hc) as H. cbn in H.
  repeat split; intros; unfold reg_get, update_block, reg_update; now rewrite H.
Qed.

(* whatever either reader returns after a successful verification or restore is checksum-valid
   and is what is on disk afterwards *)
Lemma read_verified crc fx d : length (blk d) = BSZ -> (valid crc (blk d) || cow_valid crc (cow d)) = true ->
  exists v d', read_restore crc fx d = (d', ROk v) /\ valid crc v = true /\ blk d' = v /\ length v = BSZ /\
               (valid crc (blk d) = true -> v = blk d) /\ (valid crc (blk d) = false -> cow d = Some v).
Proof.
  intros Hl H. unfold read_restore. rewrite Hl, Nat.eqb_refl. cbn [negb].
  destruct (valid crc (blk d)) eqn:Hv.
  - exists (blk d), (mkDisk (blk d) None). repeat split; auto. discriminate.
  - cbn [orb] in H. unfold cow_valid in H. destruct (check_cow crc (cow d)) as [| | | |c] eqn:Hc; try discriminate.
    destruct (check_cow_CowValid _ _ _ Hc) as (E & Hlc & Hvc).
    exists c, (mkDisk c (cow d)). repeat split; auto. discriminate.
Qed.

(* the patched reader never returns an unverified buffer *)
Lemma patched_serves_verified crc d d' v : read_restore crc true d = (d', ROk v) ->
  valid crc v = true /\ blk d' = v /\ (v = blk d \/ cow d = Some v).
Proof.
  unfold read_restore. destruct (negb (length (blk d) =? BSZ)%nat); [discriminate|].
  destruct (valid crc (blk d)) eqn:Hv.
  - intros H; inversion H; subst. auto.
  - destruct (check_cow crc (cow d)) as [| | | |c] eqn:Hc; try discriminate.
    intros H; inversion H; subst. destruct (check_cow_CowValid _ _ _ Hc) as (E & _ & Hvc). auto.
Qed.

(* the reader in /repo returns an unverified buffer in exactly one situation *)
Lemma repo_serves_unverified_iff crc d : length (blk d) = BSZ ->
  ((exists d' v, read_restore crc false d = (d', ROk v) /\ valid crc v = false) <->
   (valid crc (blk d) = false /\ cow_valid crc (cow d) = false)).
Proof.
  intros Hl. split.
  - intros (d' & v & H & Hv). destruct (valid crc (blk d)) eqn:Hb.
    + destruct (read_verified crc false d Hl) as (v' & d'' & H' & Hv' & _); [now rewrite Hb|].
      rewrite H in H'. inversion H'; subst. congruence.
    + split; [reflexivity|]. destruct (cow_valid crc (cow d)) eqn:Hc; [|reflexivity].
      destruct (read_verified crc false d Hl) as (v' & d'' & H' & Hv' & _); [now rewrite Hb, Hc|].
      rewrite H in H'. inversion H'; subst. congruence.
  - intros [Hb Hc]. exists d, (blk d). split; [|exact Hb].
    exact (read_invalid_no_backup crc false d Hl Hb Hc).
Qed.

(* C38 — heap model of value aliasing between a reader, its transaction's
   nodes and the process-wide L1 node cache (btree/node.go CopyTo/Clone,
   cache/l1cache.go, btree/btree.go GetCurrentValue/GetCurrentItem,
   UpdateCurrentValue, common/noderepository.backend.go get).
   Definitions only; lemmas are in AliasProofs.v.

   A stored value is a chain of cells: the cell the slot's `Value *TV`
   points to holds the TV itself (depth 0); what the TV refers to (backing
   array, map, pointee, a slice inside the pointee) are the deeper cells. A
   level that carries no data of its own holds 0.
     string, struct{A}        [A]
     []byte, []int, map       [0; x]
     struct{A; B []byte}      [A; b]
     *struct{A; B []byte}     [0; A; b]
   JSON (blob store, L2 cache) is a deep copy: pure data in, fresh cells out.
   Node.CopyTo / Clone copy the slot array: the cell indices are shared. *)
From Coq Require Import List NArith Bool Arith.
Import ListNotations.

Record cell := mkCell { pay : N; nxt : option nat }.
Definition heap := list cell.

(* maximal depth of a value chain looked at by a read *)
Definition chain_fuel : nat := 8.

(* decode: allocate a chain for pure data, innermost cell first *)
Fixpoint alloc_chain (h : heap) (d : list N) : heap * option nat :=
  match d with
  | [] => (h, None)
  | x :: xs => let '(h1, nx) := alloc_chain h xs in (h1 ++ [mkCell x nx], Some (length h1))
  end.

(* encode: the deep content reachable from a cell *)
Fixpoint snap_from (fuel : nat) (h : heap) (o : option nat) : list N :=
  match fuel, o with
  | S f, Some i =>
      match nth_error h i with
      | Some c => pay c :: snap_from f h (nxt c)
      | None => []
      end
  | _, _ => []
  end.
Definition snapshot (h : heap) (i : nat) : list N := snap_from chain_fuel h (Some i).

Fixpoint upd {A : Type} (l : list A) (i : nat) (x : A) : list A :=
  match l, i with
  | [], _ => []
  | _ :: t, O => x :: t
  | a :: t, S j => a :: upd t j x
  end.

(* the cell `depth` references below cell i *)
Fixpoint walk (h : heap) (o : option nat) (depth : nat) : option nat :=
  match o with
  | None => None
  | Some i =>
      match depth with
      | O => Some i
      | S d => match nth_error h i with Some c => walk h (nxt c) d | None => None end
      end
  end.

Definition set_pay (h : heap) (i : nat) (v : N) : heap :=
  match nth_error h i with
  | Some c => upd h i (mkCell v (nxt c))
  | None => h
  end.

(* what the caller holds after a read:
   GetCurrentValue copies the TV out of the slot's cell (a private depth-0 copy
   that still refers to the same deeper cells); GetCurrentItem hands out the
   slot's pointer itself. *)
Inductive api := ApiValue | ApiItem.
Inductive handle := HVal (p : N) (nx : option nat) | HItem (c : nat).

Definition handle_snap (h : heap) (x : handle) : list N :=
  match x with
  | HVal p nx => p :: snap_from (pred chain_fuel) h nx
  | HItem c => snapshot h c
  end.

Definition node := list (N * nat).          (* slots: key, cell of Item.Value *)
Definition data := list (N * list N).       (* JSON of a node: key, deep content *)

Fixpoint lookup {A : Type} (l : list (N * A)) (k : N) : option A :=
  match l with
  | [] => None
  | (k', v) :: r => if N.eqb k k' then Some v else lookup r k
  end.

Fixpoint assign {A : Type} (l : list (N * A)) (k : N) (v : A) : list (N * A) :=
  match l with
  | [] => []
  | (k', v') :: r => if N.eqb k k' then (k', v) :: r else (k', v') :: assign r k v
  end.

(* decode a node: fresh cells for every slot *)
Fixpoint alloc_node (h : heap) (d : data) : heap * node :=
  match d with
  | [] => (h, [])
  | (k, v) :: r =>
      let '(h1, n) := alloc_node h r in
      let '(h2, c) := alloc_chain h1 v in
      match c with
      | Some i => (h2, (k, i) :: n)
      | None => (h2 ++ [mkCell 0 None], (k, length h2) :: n)  (* empty data: not produced by the harness *)
      end
  end.

Definition encode_node (h : heap) (n : node) : data := map (fun '(k, c) => (k, snapshot h c)) n.

Record state := mkState {
  hp : heap;
  dur : data;            (* blob store / L2 cache content of the node: committed data *)
  l1 : option node;      (* the L1 MRU entry of the node (a clone: shares cells) *)
  txn : option node;     (* the running transaction's materialised node *)
  dirty : bool;          (* the running transaction has written back *)
  hs : list handle;      (* handles in read order *)
  l2stale : bool         (* the L2 copy of the node was written by a commit of this process: its embedded
                            version differs from the handle's, so an L1 entry made from it never hits *)
}.

Definition init_state (d : data) : state := mkState [] d None None false [] false.

(* first touch of the node by a transaction: L1 hit = CopyTo (same cells);
   miss = decode from L2/blob into fresh cells and put a clone into L1 *)
Definition fetch (s : state) : state * node :=
  match txn s with
  | Some n => (s, n)
  | None =>
      match l1 s with
      | Some n => (mkState (hp s) (dur s) (l1 s) (Some n) (dirty s) (hs s) (l2stale s), n)
      | None =>
          let '(h1, n) := alloc_node (hp s) (dur s) in
          (mkState h1 (dur s) (if l2stale s then None else Some n) (Some n) (dirty s) (hs s) (l2stale s), n)
      end
  end.

Inductive action :=
| ARead (k : N) (a : api)
| AMut (h : nat) (depth : nat) (v : N)
| AReplace (h : nat) (d : list N)
| AUpdate (k : N) (h : nat).

Definition obs := (bool * list N)%type.

Definition step (s : state) (a : action) : state * obs :=
  match a with
  | ARead k ap =>
      let '(s1, n) := fetch s in
      match lookup n k with
      | None => (s1, (false, []))
      | Some c =>
          let hd := match ap with
                    | ApiItem => HItem c
                    | ApiValue => match nth_error (hp s1) c with
                                  | Some cl => HVal (pay cl) (nxt cl)
                                  | None => HVal 0 None
                                  end
                    end in
          (mkState (hp s1) (dur s1) (l1 s1) (txn s1) (dirty s1) (hs s1 ++ [hd]) (l2stale s1), (true, handle_snap (hp s1) hd))
      end
  | AMut hi depth v =>
      match nth_error (hs s) hi with
      | None => (s, (false, []))
      | Some (HVal p nx) =>
          match depth with
          | O => let hd := HVal v nx in
                 (mkState (hp s) (dur s) (l1 s) (txn s) (dirty s) (upd (hs s) hi hd) (l2stale s), (true, handle_snap (hp s) hd))
          | S d =>
              match walk (hp s) nx d with
              | Some i => let h' := set_pay (hp s) i v in
                          (mkState h' (dur s) (l1 s) (txn s) (dirty s) (hs s) (l2stale s), (true, handle_snap h' (HVal p nx)))
              | None => (s, (false, handle_snap (hp s) (HVal p nx)))
              end
          end
      | Some (HItem c) =>
          match walk (hp s) (Some c) depth with
          | Some i => let h' := set_pay (hp s) i v in
                      (mkState h' (dur s) (l1 s) (txn s) (dirty s) (hs s) (l2stale s), (true, handle_snap h' (HItem c)))
          | None => (s, (false, handle_snap (hp s) (HItem c)))
          end
      end
  | AReplace hi d =>
      match nth_error (hs s) hi, d with
      | Some (HVal _ _), x :: xs =>
          let '(h1, nx) := alloc_chain (hp s) xs in
          let hd := HVal x nx in
          (mkState h1 (dur s) (l1 s) (txn s) (dirty s) (upd (hs s) hi hd) (l2stale s), (true, handle_snap h1 hd))
      | Some (HItem c), x :: xs =>
          let '(h1, nx) := alloc_chain (hp s) xs in
          let h2 := upd h1 c (mkCell x nx) in
          (mkState h2 (dur s) (l1 s) (txn s) (dirty s) (hs s) (l2stale s), (true, handle_snap h2 (HItem c)))
      | _, _ => (s, (false, []))
      end
  | AUpdate k hi =>
      match nth_error (hs s) hi with
      | None => (s, (false, []))
      | Some hd =>
          let '(s1, n) := fetch s in
          match lookup n k with
          | None => (s1, (false, handle_snap (hp s1) hd))
          | Some _ =>
              (* UpdateCurrentValue(v): item.Value = &v, a new depth-0 cell holding a copy of the TV *)
              let cl := match hd with
                        | HVal p nx => mkCell p nx
                        | HItem c => match nth_error (hp s1) c with Some x => x | None => mkCell 0 None end
                        end in
              let h1 := hp s1 ++ [cl] in
              (mkState h1 (dur s1) (l1 s1) (Some (assign n k (length (hp s1)))) true (hs s1) (l2stale s1), (true, handle_snap h1 hd))
          end
      end
  end.

Fixpoint steps (s : state) (l : list action) : state * list obs :=
  match l with
  | [] => (s, [])
  | a :: r => let '(s1, o) := step s a in let '(s2, os) := steps s1 r in (s2, o :: os)
  end.

(* end of a transaction. Commit after a write-back serialises the whole node
   as it is in memory at that moment (blob + L2) and puts a clone of it into L1;
   commit without a write-back and rollback leave the caches alone. *)
Definition end_tx (s : state) (commit : bool) : state :=
  match txn s, commit && dirty s with
  | Some n, true => mkState (hp s) (encode_node (hp s) n) (Some n) None false (hs s) true
  | _, _ => mkState (hp s) (dur s) (l1 s) None false (hs s) (l2stale s)
  end.

Inductive event :=
| ETx (acts : list action) (commit : bool)
| EDropL1      (* L1 eviction: next read is served by the L2 cache (JSON) *)
| ERestart.    (* new process: next read is served by the blob store (JSON) *)

Definition ev_step (s : state) (e : event) : state * list obs :=
  match e with
  | ETx acts c => let '(s1, os) := steps s acts in (end_tx s1 c, os)
  | EDropL1 => (mkState (hp s) (dur s) None (txn s) (dirty s) (hs s) (l2stale s), [])
  | ERestart => (mkState (hp s) (dur s) None (txn s) (dirty s) (hs s) false, [])
  end.

Fixpoint run (s : state) (l : list event) : state * list obs :=
  match l with
  | [] => (s, [])
  | e :: r => let '(s1, o) := ev_step s e in let '(s2, os) := run s1 r in (s2, o ++ os)
  end.

(* ------------------------------------------------------------------ the specification:
   copy semantics. A read hands out a private deep copy of the committed value
   (or of the transaction's own write-back); in-place writes change that copy only. *)
Record spec := mkSpec {
  committed : data;
  own : data;                 (* committed overlaid with this transaction's write-backs *)
  sdirty : bool;
  shs : list (list N)
}.

Definition spec_init (d : data) : spec := mkSpec d d false [].

Fixpoint set_depth (l : list N) (depth : nat) (v : N) : option (list N) :=
  match l, depth with
  | [], _ => None
  | _ :: t, O => Some (v :: t)
  | a :: t, S d => match set_depth t d v with Some t' => Some (a :: t') | None => None end
  end.

Definition spec_step (s : spec) (a : action) : spec * obs :=
  match a with
  | ARead k _ =>
      match lookup (own s) k with
      | None => (s, (false, []))
      | Some v => (mkSpec (committed s) (own s) (sdirty s) (shs s ++ [v]), (true, v))
      end
  | AMut hi depth v =>
      match nth_error (shs s) hi with
      | None => (s, (false, []))
      | Some d =>
          match set_depth d depth v with
          | Some d' => (mkSpec (committed s) (own s) (sdirty s) (upd (shs s) hi d'), (true, d'))
          | None => (s, (false, d))
          end
      end
  | AReplace hi d =>
      match nth_error (shs s) hi, d with
      | Some _, _ :: _ => (mkSpec (committed s) (own s) (sdirty s) (upd (shs s) hi d), (true, d))
      | _, _ => (s, (false, []))
      end
  | AUpdate k hi =>
      match nth_error (shs s) hi with
      | None => (s, (false, []))
      | Some d =>
          match lookup (own s) k with
          | None => (s, (false, d))
          | Some _ => (mkSpec (committed s) (assign (own s) k d) true (shs s), (true, d))
          end
      end
  end.

Fixpoint spec_steps (s : spec) (l : list action) : spec * list obs :=
  match l with
  | [] => (s, [])
  | a :: r => let '(s1, o) := spec_step s a in let '(s2, os) := spec_steps s1 r in (s2, o :: os)
  end.

Definition spec_end (s : spec) (commit : bool) : spec :=
  if commit && sdirty s then mkSpec (own s) (own s) false (shs s)
  else mkSpec (committed s) (committed s) false (shs s).

Definition spec_ev (s : spec) (e : event) : spec * list obs :=
  match e with
  | ETx acts c => let '(s1, os) := spec_steps s acts in (spec_end s1 c, os)
  | EDropL1 | ERestart => (s, [])
  end.

Fixpoint spec_run (s : spec) (l : list event) : spec * list obs :=
  match l with
  | [] => (s, [])
  | e :: r => let '(s1, o) := spec_ev s e in let '(s2, os) := spec_run s1 r in (s2, o ++ os)
  end.

(* the in-place writes a value-typed TV admits through GetCurrentValue (and any
   TV admits on the caller's own copy): reads through GetCurrentValue only,
   writes at depth 0 of the handle (assignment to the caller's variable or to
   its fields), replacement of the caller's variable, write-back *)
Definition private_act (a : action) : bool :=
  match a with
  | ARead _ ApiItem => false
  | AMut _ (S _) _ => false
  | _ => true
  end.

Definition private_ev (e : event) : bool :=
  match e with
  | ETx acts _ => forallb private_act acts
  | _ => true
  end.

Definition obs_eqb (a b : obs) : bool :=
  Bool.eqb (fst a) (fst b) &&
  (Nat.eqb (length (snd a)) (length (snd b)) && forallb (fun p => N.eqb (fst p) (snd p)) (combine (snd a) (snd b))).

Fixpoint obs_list_eqb (a b : list obs) : bool :=
  match a, b with
  | [], [] => true
  | x :: r, y :: r' => obs_eqb x y && obs_list_eqb r r'
  | _, _ => false
  end.

(* Timeout.v — logical-clock model of SOP's retry loops (definitions only).
   common/twophasecommittransaction.go phase1Commit: `for !successful { if timedOut ...; Lock (try-lock);
   ... RandomSleep; continue }`, fs/hashmap.fileregion.go lockFileBlockRegionWithRetry / findAndAdd:
   `for { try-lock; if ok return; if TimedOut return err; RandomSleep }`, sleep.go TimedOut / Sleep.
   Time is an integer number of milliseconds.  Every call has an adversarial duration within a
   bound; every lock acquisition is a try-lock that returns (there is no blocking wait in the code);
   sop.Sleep(ctx, d) ends early when the context deadline passes. *)
From Coq Require Import ZArith Bool List.
From SopVerif Require Import Gen.Consts Gen.TimeoutConsts.
Local Open Scope Z_scope.

Record lp := mkLP {
  lT : Z;            (* the loop's own time limit (maxTime, or lockSectorRetryTimeout) *)
  lD : option Z;     (* absolute context deadline, if any *)
  lA : Z;            (* bound on the duration of one round's work (calls only, no sleep) *)
  lm : Z; lM : Z }.  (* RandomSleep range *)

(* what the environment (other transactions, the lock service, the disk) decides for one round *)
Inductive round :=
| RFail (d s : Z) (holds : bool)   (* work took d, did not succeed, RandomSleep asked for s; holds: node locks still held *)
| RDone (d : Z) (ok : bool).       (* work took d and left the loop: success or error return *)

Inductive out := Timeout | Done (ok : bool) | Running.

(* sop.TimedOut: ctx.Err() != nil, or Now()-start > limit; tested FIRST in every round *)
Definition expired (p : lp) (start now : Z) : bool :=
  (match lD p with Some d => d <=? now | None => false end) || (lT p <? now - start).
(* sop.Sleep(ctx, s) started at t: returns at min(t+s, deadline) *)
Definition cut (p : lp) (t s : Z) : Z :=
  match lD p with Some d => Z.min s (Z.max 0 (d - t)) | None => s end.

(* returns (end time, outcome, number of rounds that passed the time check, locks held at exit) *)
Fixpoint loop (p : lp) (start now : Z) (fuel k : nat) (held : bool) (adv : nat -> round) : Z * out * nat * bool :=
  match fuel with
  | O => (now, Running, k, held)
  | S f =>
      if expired p start now then (now, Timeout, k, held)
      else match adv k with
           | RDone d ok => (now + d, Done ok, S k, true)
           | RFail d s h => loop p start (now + d + cut p (now + d) s) f (S k) h adv
           end
  end.

Definition wf_round (p : lp) (r : round) : Prop :=
  match r with
  | RDone d _ => 0 <= d <= lA p
  | RFail d s _ => 0 <= d <= lA p /\ lm p <= s <= lM p
  end.
Definition wf_lp (p : lp) : Prop := 0 < lm p <= lM p /\ 0 <= lA p /\ 0 <= lT p.

Definition limit (p : lp) (start : Z) : Z :=
  match lD p with Some d => Z.min d (start + lT p) | None => start + lT p end.

(* ---------- constants of the code ---------- *)
Definition sleepMin : Z := randomSleepUnit_ms.
Definition sleepMax : Z := randomSleepUnit_ms * randomSleepMaxMultiplier.
(* total Fibonacci backoff of sop.Retry: start * (1+1+2+3+5) for 5 retries *)
Definition fibTotal : Z := 12.

(* ---------- cost structure of one commit, in terms of a per-call bound c and the number of handles ---------- *)
Record cost := mkCost {
  cCall : Z;       (* bound on one storage / cache / log call *)
  nHandles : Z;    (* registry handles the transaction writes (roots + added + updated + removed) *)
  nCalls : Z;      (* other calls of one loop round (locks, logs, blobs, refetch): a count *)
  regionWait : Z;  (* bound on waiting for one registry file-region lock (0 when no holder stalls;
                      regionWaitProd in general, see C15_region_wait_bounded) *)
  retryStart : Z }. (* sop.RetryStartDuration in force (retryStartDuration_ms in production) *)
Definition retryBackoffTotal (c : cost) : Z := retryStart c * fibTotal.
(* the general bound of the file-region lock-retry loop: its limit, one more try-lock and sleep *)
Definition regionWaitProd (cc : Z) : Z := lockSectorRetryTimeout_ms + cc + sleepMax.

(* one registry handle write: its file-region lock-retry loop (limit lockSectorRetryTimeout) and the block I/O *)
Definition regWriteBound (c : cost) : Z := regionWait c + 3 * cCall c.
(* work of one round of the phase-1 loop: every handle written (phase-1 writes) and rolled back once *)
Definition iterBound (c : cost) : Z := nCalls c * cCall c + 2 * nHandles c * regWriteBound c.
(* after the loop: commitStores (sop.Retry backoff on the store-info lock), priority log, lock re-checks *)
Definition postBound (c : cost) : Z := nCalls c * cCall c + retryBackoffTotal c.
(* rollback on the error path of Phase1Commit *)
Definition rollbackBound (c : cost) : Z := nCalls c * cCall c + retryBackoffTotal c + 2 * nHandles c * regWriteBound c.
(* before the loop: log, lock tracked items, classify *)
Definition preBound (c : cost) : Z := nCalls c * cCall c.
Definition overheadB (c : cost) : Z := preBound c + iterBound c + sleepMax + postBound c + rollbackBound c.

(* Phase1Commit: pre, loop (limit maxTime counted from the loop start), post on success, rollback on every error path.
   Returns (end time, success, node locks / item lock records still owned at return). *)
Definition phase1 (c : cost) (maxTime : Z) (D : option Z) (t0 pre post rb : Z) (post_ok : bool)
                  (fuel : nat) (adv : nat -> round) : Z * bool * bool :=
  let start := t0 + pre in
  let p := mkLP maxTime D (iterBound c) sleepMin sleepMax in
  let '(e, o, _, held) := loop p start start fuel 0%nat false adv in
  match o with
  | Done true => if post_ok then (e + post, true, true)          (* locks are kept for phase 2 *)
                 else (e + post + rb, false, false)              (* rollback: unlockNodesKeys, unlockTrackedItems *)
  | _ => (e + rb, false, false)                                  (* rollback likewise *)
  end.

(* ---------- item lock records (common/itemactiontracker.go lock / unlock) ----------
   lock(): lock records are written for every tracked item that had none (SetStructs), then read
   back and verified ONE BY ONE; isLockOwner is set as each item verifies and the first item that
   carries another transaction's LockID makes lock() return an error.  unlock() deletes only the
   records whose isLockOwner flag is set.  mine[i]: at verification time record i carries this
   transaction's LockID (it won the race for that key). *)
Fixpoint item_verify (mine : list bool) : list bool * bool :=
  match mine with
  | nil => (nil, true)
  | true :: r => let '(o, ok) := item_verify r in (true :: o, ok)
  | false :: r => (map (fun _ => false) mine, false)
  end.
(* records of this transaction still in the cache after lock() and then unlock() *)
Definition item_leftover (mine : list bool) : list bool :=
  map (fun p => fst p && negb (snd p)) (combine mine (fst (item_verify mine))).

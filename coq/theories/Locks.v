(* Locks.v — executable model of the two lock services behind sop.Locker (C28).

   In-memory: /repo/cache/l2inmemorycache.go (Lock, DualLock, IsLocked, IsLockedTTL,
   IsLockedByOthers, Unlock) over /repo/cache/l2inmemorycache.sharded_map.go
   (bounded shards; loadOrStore evicts an expired entry when the shard is full, never a held lock).
   Redis adapter: /repo/adapters/redis/locker.go over a Redis string table with TTLs.

   One service command is one atomic step (hypothesis, named in the trusted base).
   Time is a logical N advanced by OTick.  Definitions only; lemmas are in LocksProofs.v. *)
From Coq Require Import List NArith ZArith Bool.
From SopVerif Require Import Gen.LocksConsts.
Import ListNotations.
Local Open Scope N_scope.

Definition key := N.
Definition owner := N.             (* the LockID (a UUID in the code) *)
Definition expiry := option N.     (* None = no TTL (Redis SETNX without expiration) *)

(* time.Now().After(exp) / Redis keyIsExpired: gone iff now > exp *)
Definition expired (now : N) (e : expiry) : bool :=
  match e with Some x => x <? now | None => false end.

Definition exp_le (a b : expiry) : bool :=
  match a, b with
  | _, None => true
  | None, Some _ => false
  | Some x, Some y => x <=? y
  end.

Definition entry := (owner * expiry)%type.
Definition table := list (key * entry).

Fixpoint lookup (k : key) (t : table) : option entry :=
  match t with
  | [] => None
  | (k', v) :: r => if k =? k' then Some v else lookup k r
  end.

Fixpoint remove (k : key) (t : table) : table :=
  match t with
  | [] => []
  | (k', v) :: r => if k =? k' then remove k r else (k', v) :: remove k r
  end.

Definition upsert (k : key) (v : entry) (t : table) : table := (k, v) :: remove k t.

Definition mem (k : key) (ks : list key) : bool := existsb (N.eqb k) ks.

(* ------------------------------------------------------------ interface *)

Inductive op :=
| OLock (o : owner) (d : N) (ks : list key)
| ODualLock (o : owner) (d : N) (ks : list key)
| OIsLocked (o : owner) (ks : list key)
| OIsLockedTTL (o : owner) (d : N) (ks : list key)
| OIsLockedByOthers (ks : list key)
| OUnlock (o : owner) (ks : list key)
| OTick (n : N).

(* (ok, owner reported by a failed Lock; None = NilUUID) *)
Definition resp := (bool * option owner)%type.

(* who holds what, as the service records it *)
Definition heldb (t : table) (now : N) (k : key) (o : owner) : bool :=
  match lookup k t with
  | Some (o', e) => (o' =? o) && negb (expired now e)
  | None => false
  end.

Definition live (now : N) (k : key) (t : table) : option entry :=
  match lookup k t with
  | Some (o, e) => if expired now e then None else Some (o, e)
  | None => None
  end.

(* remove every listed key whose entry is owned by o (Unlock, and Lock's rollback:
   load, compare lockID, compareAndDelete) *)
Fixpoint release_own (o : owner) (ks : list key) (t : table) : table :=
  match ks with
  | [] => t
  | k :: r =>
      release_own o r
        (match lookup k t with
         | Some (o', _) => if o' =? o then remove k t else t
         | None => t
         end)
  end.

Fixpoint insert_key (k : key) (l : list key) : list key :=
  match l with
  | [] => [k]
  | x :: r => if k <=? x then k :: l else x :: insert_key k r
  end.
Definition sort_keys (ks : list key) : list key := fold_right insert_key [] ks.

(* ------------------------------------------------------------ in-memory service *)

Record imcfg := mkImCfg {
  im_cap : nat;             (* maxItemsPerShard *)
  im_shard : key -> N;      (* getShard: fnv32a(key) mod shardCount *)
  im_default_ttl : N        (* Lock: duration <= 0 -> 15 minutes *)
}.

Record imstate := mkIm { im_tbl : table; im_now : N }.

Definition sample_size : nat := Z.to_nat lockEvictionSampleSize.

Definition shard_entries (cfg : imcfg) (t : table) (s : N) : table :=
  filter (fun e => im_shard cfg (fst e) =? s) t.

(* loadOrStore on a full shard (after the fix "never evict a held lock"): the map
   iteration yields an arbitrary sample of min(sampleSize, len) entries; entries that
   are unexpired locks (isHeldLock) are skipped; the victim is a sampled EXPIRED entry
   with the earliest expiry (first one wins a tie, iteration order arbitrary).  If the
   sample holds no expired entry the fallback deletes the first expired entry of the
   whole shard, and if there is none nothing is evicted and the shard grows.
   Hence c can be the victim iff it is expired and enough other entries that are
   either held or expire no earlier than c exist to fill the sample (the fallback is
   the case where all of them are held). *)
Definition entry_live (now : N) (e : key * entry) : bool := negb (expired now (snd (snd e))).

Definition valid_in (now : N) (sh : table) (c : key * entry) : bool :=
  negb (entry_live now c) &&
  Nat.leb (Nat.min sample_size (length sh) - 1)
          (length (filter (fun e => negb (fst e =? fst c) &&
                                    (entry_live now e || exp_le (snd (snd c)) (snd (snd e)))) sh)).

(* the table holds no unexpired entry for k *)
Definition not_held (now : N) (k : key) (t : table) : bool :=
  match live now k t with Some _ => false | None => true end.

(* (the table is duplicate-free, so not_held repeats the first test of valid_in; it is
   stated through lookup so that the proofs need no NoDup invariant) *)
Definition im_victims (cfg : imcfg) (now : N) (t : table) (k : key) : table :=
  let sh := shard_entries cfg t (im_shard cfg k) in
  filter (fun c => not_held now (fst c) t && valid_in now sh c) sh.

(* the tables loadOrStore may insert the new key k into *)
Definition make_room (cfg : imcfg) (now : N) (t : table) (k : key) : list table :=
  if Nat.leb (im_cap cfg) (length (shard_entries cfg t (im_shard cfg k))) then
    match im_victims cfg now t k with
    | [] => [t]                               (* only held locks: no eviction, the shard grows *)
    | vs => map (fun c => remove (fst c) t) vs
    end
  else [t].

(* post table and response *)
Definition outcome := (table * resp)%type.

Fixpoint im_lock_loop (cfg : imcfg) (now : N) (o : owner) (e : expiry)
         (ks acq : list key) (t : table) : list outcome :=
  match ks with
  | [] => [(t, (true, None))]
  | k :: r =>
      match lookup k t with
      | None =>
          (* loadOrStore stores; a full shard evicts an expired entry first if it has one *)
          flat_map (fun t2 => im_lock_loop cfg now o e r (k :: acq) (upsert k (o, e) t2))
                   (make_room cfg now t k)
      | Some (o', e') =>
          if expired now e' then im_lock_loop cfg now o e r (k :: acq) (upsert k (o, e) t)  (* expiry CAS *)
          else if o' =? o then im_lock_loop cfg now o e r acq t                              (* re-entry, TTL untouched *)
          else [(release_own o acq t, (false, Some o'))]                                      (* rollback *)
      end
  end.

Definition im_ttl (cfg : imcfg) (d : N) : N := if d =? 0 then im_default_ttl cfg else d.

Definition im_is_locked (s : imstate) (o : owner) (ks : list key) : bool :=
  forallb (fun k => heldb (im_tbl s) (im_now s) k o) ks.

(* IsLockedTTL phase 1: every key present, ours, unexpired (an expired own entry is deleted) *)
Fixpoint im_ttl_check (now : N) (o : owner) (ks : list key) (t : table) : bool * table :=
  match ks with
  | [] => (true, t)
  | k :: r =>
      match lookup k t with
      | None => (false, t)
      | Some (o', e) =>
          if negb (o' =? o) then (false, t)
          else if expired now e then (false, remove k t)
          else im_ttl_check now o r t
      end
  end.

Definition refresh (o : owner) (e : expiry) (ks : list key) (t : table) : table :=
  fold_left (fun t k => upsert k (o, e) t) ks t.

Definition im_others (s : imstate) (ks : list key) : bool :=
  existsb (fun k => match live (im_now s) k (im_tbl s) with Some _ => true | None => false end) ks.

Definition im_out (now : N) (out : outcome) : imstate * resp := (mkIm (fst out) now, snd out).

Definition im_lock (cfg : imcfg) (s : imstate) (o : owner) (d : N) (ks : list key) : list (imstate * resp) :=
  map (im_out (im_now s))
      (im_lock_loop cfg (im_now s) o (Some (im_now s + im_ttl cfg d)) (sort_keys ks) [] (im_tbl s)).

Definition im_step (cfg : imcfg) (s : imstate) (op : op) : list (imstate * resp) :=
  match op with
  | OLock o d ks => im_lock cfg s o d ks
  | ODualLock o d ks =>
      map (fun out : imstate * resp =>
             if fst (snd out) then (fst out, (im_is_locked (fst out) o ks, None)) else out)
          (im_lock cfg s o d ks)
  | OIsLocked o ks => [(s, (im_is_locked s o ks, None))]
  | OIsLockedTTL o d ks =>
      let c := im_ttl_check (im_now s) o ks (im_tbl s) in
      if fst c
      then [(mkIm (refresh o (Some (im_now s + d)) ks (im_tbl s)) (im_now s), (true, None))]
      else [(mkIm (snd c) (im_now s), (false, None))]
  | OIsLockedByOthers ks => [(s, (im_others s ks, None))]
  | OUnlock o ks => [(mkIm (release_own o ks (im_tbl s)) (im_now s), (true, None))]
  | OTick n => [(mkIm (im_tbl s) (im_now s + n), (true, None))]
  end.

(* ------------------------------------------------------------ Redis adapter *)

Definition flags := list (owner * key).   (* LockKey objects whose IsLockOwner is true *)

Definition flag_mem (o : owner) (k : key) (fl : flags) : bool :=
  existsb (fun p => (fst p =? o) && (snd p =? k)) fl.
Definition flag_del (o : owner) (k : key) (fl : flags) : flags :=
  filter (fun p => negb ((fst p =? o) && (snd p =? k))) fl.
Definition flag_add (o : owner) (k : key) (fl : flags) : flags :=
  if flag_mem o k fl then fl else (o, k) :: fl.

Record rdstate := mkRd { rd_tbl : table; rd_now : N; rd_flags : flags }.

Definition rd_ttl (now d : N) : expiry := if d =? 0 then None else Some (now + d).

(* Lock step 1: pipeline of SET key id NX [PX|EX ttl] *)
Fixpoint rd_setnx (now : N) (o : owner) (e : expiry) (ks : list key) (t : table) (fl : flags)
         (failed : list key) : table * flags * list key :=
  match ks with
  | [] => (t, fl, rev failed)
  | k :: r =>
      match live now k t with
      | None => rd_setnx now o e r (upsert k (o, e) t) (flag_add o k fl) failed
      | Some _ => rd_setnx now o e r t fl (k :: failed)
      end
  end.

(* Lock step 4: GET of the failed keys, in order *)
Fixpoint rd_getcheck (now : N) (o : owner) (ks : list key) (t : table) (fl : flags) : flags * resp :=
  match ks with
  | [] => (fl, (true, None))
  | k :: r =>
      match live now k t with
      | None => (fl, (false, None))
      | Some (o', _) =>
          if o' =? o then rd_getcheck now o r t (flag_add o k fl) else (fl, (false, Some o'))
      end
  end.

Definition rd_lock (s : rdstate) (o : owner) (d : N) (ks : list key) : rdstate * resp :=
  let p := rd_setnx (rd_now s) o (rd_ttl (rd_now s) d) ks (rd_tbl s) (rd_flags s) [] in
  let c := rd_getcheck (rd_now s) o (snd p) (fst (fst p)) (snd (fst p)) in
  (mkRd (fst (fst p)) (rd_now s) (fst c), snd c).

(* IsLocked: pipeline of GET; every key updates the local flag *)
Fixpoint rd_is_locked_loop (now : N) (o : owner) (ks : list key) (t : table) (fl : flags) (r : bool) : flags * bool :=
  match ks with
  | [] => (fl, r)
  | k :: rest =>
      match live now k t with
      | Some (o', _) =>
          if o' =? o then rd_is_locked_loop now o rest t (flag_add o k fl) r
          else rd_is_locked_loop now o rest t (flag_del o k fl) false
      | None => rd_is_locked_loop now o rest t (flag_del o k fl) false
      end
  end.

Definition rd_is_locked (s : rdstate) (o : owner) (ks : list key) : rdstate * resp :=
  let c := rd_is_locked_loop (rd_now s) o ks (rd_tbl s) (rd_flags s) true in
  (mkRd (rd_tbl s) (rd_now s) (fst c), (snd c, None)).

(* IsLockedTTL: GETEX key (PERSIST | PX ttl) for each key, THEN compare the value *)
Fixpoint rd_ttl_loop (now : N) (o : owner) (e : expiry) (ks : list key) (t : table) (fl : flags) (r : bool)
  : table * flags * bool :=
  match ks with
  | [] => (t, fl, r)
  | k :: rest =>
      match live now k t with
      | Some (o', _) =>
          if o' =? o then rd_ttl_loop now o e rest (upsert k (o', e) t) (flag_add o k fl) r
          else rd_ttl_loop now o e rest (upsert k (o', e) t) (flag_del o k fl) false
      | None => rd_ttl_loop now o e rest t (flag_del o k fl) false
      end
  end.

Definition rd_others (s : rdstate) (ks : list key) : bool :=
  match ks with
  | [] => false
  | _ => forallb (fun k => match live (rd_now s) k (rd_tbl s) with Some _ => true | None => false end) ks
  end.

(* Unlock: DEL of every key whose LOCAL flag is set; no ownership check at the server *)
Definition rd_unlock_keys (fl : flags) (o : owner) (ks : list key) : list key :=
  filter (fun k => flag_mem o k fl) ks.

Definition rd_step (s : rdstate) (op : op) : rdstate * resp :=
  match op with
  | OLock o d ks => rd_lock s o d ks
  | ODualLock o d ks =>
      let p := rd_lock s o d ks in
      if fst (snd p) then rd_is_locked (fst p) o ks else p
  | OIsLocked o ks => rd_is_locked s o ks
  | OIsLockedTTL o d ks =>
      let c := rd_ttl_loop (rd_now s) o (rd_ttl (rd_now s) d) ks (rd_tbl s) (rd_flags s) true in
      (mkRd (fst (fst c)) (rd_now s) (snd (fst c)), (snd c, None))
  | OIsLockedByOthers ks => (s, (rd_others s ks, None))
  | OUnlock o ks =>
      (mkRd (fold_left (fun t k => remove k t) (rd_unlock_keys (rd_flags s) o ks) (rd_tbl s)) (rd_now s) (rd_flags s),
       (true, None))
  | OTick n => (mkRd (rd_tbl s) (rd_now s + n) (rd_flags s), (true, None))
  end.

(* A Redis command that touches a live entry of ANOTHER owner destructively:
   Unlock deleting it (stale local flag), IsLockedTTL shortening its TTL. *)
Definition foreign_live (now : N) (o : owner) (k : key) (t : table) : option expiry :=
  match live now k t with
  | Some (o', e) => if o' =? o then None else Some e
  | None => None
  end.

Definition rd_hazard (s : rdstate) (op : op) : list key :=
  match op with
  | OUnlock o ks =>
      filter (fun k => match foreign_live (rd_now s) o k (rd_tbl s) with Some _ => true | None => false end)
             (rd_unlock_keys (rd_flags s) o ks)
  | OIsLockedTTL o d ks =>
      filter (fun k => match foreign_live (rd_now s) o k (rd_tbl s) with
                       | Some e => negb (exp_le e (rd_ttl (rd_now s) d))
                       | None => false
                       end) ks
  | _ => []
  end.

(* ------------------------------------------------------------ what owners were told *)

(* bel o k = Some e: the last Lock/DualLock/IsLocked/IsLockedTTL call of o that
   covered k answered true (and o has not unlocked k since); e is the expiry the
   service had recorded for o's entry at that moment (if the service answered true
   without such an entry, o is taken to believe at least at that instant). *)
Definition belief := owner -> key -> option expiry.

Definition believerb (b : belief) (now : N) (o : owner) (k : key) : bool :=
  match b o k with Some e => negb (expired now e) | None => false end.

Definition told (t' : table) (now : N) (o : owner) (k : key) : expiry :=
  match lookup k t' with
  | Some (o', e) => if o' =? o then e else Some now
  | None => Some now
  end.

Definition subject (p : op) : option (owner * list key) :=
  match p with
  | OLock o _ ks | ODualLock o _ ks | OIsLocked o ks | OIsLockedTTL o _ ks | OUnlock o ks => Some (o, ks)
  | OIsLockedByOthers _ | OTick _ => None
  end.

(* does the answer tell the caller that it holds the keys? *)
Definition grants (p : op) (rs : resp) : bool :=
  match p with
  | OUnlock _ _ => false
  | _ => fst rs
  end.

Definition bel_update (t' : table) (now : N) (p : op) (rs : resp) (b : belief) : belief :=
  match subject p with
  | Some (o, ks) =>
      fun o1 k1 =>
        if (o1 =? o) && mem k1 ks
        then (if grants p rs then Some (told t' now o k1) else None)
        else b o1 k1
  | None => b
  end.

Definition no_belief : belief := fun _ _ => None.

(* all runs of a list of commands (every eviction-victim choice) *)
Definition imrun := (imstate * belief)%type.

Fixpoint im_run (cfg : imcfg) (ops : list op) (s : imstate) (b : belief) : list imrun :=
  match ops with
  | [] => [(s, b)]
  | p :: r =>
      flat_map (fun out : imstate * resp =>
                  let s' := fst out in
                  im_run cfg r s' (bel_update (im_tbl s') (im_now s') p (snd out) b))
               (im_step cfg s p)
  end.

Definition im_init : imstate := mkIm [] 0.

Fixpoint rd_run (ops : list op) (s : rdstate) (b : belief) : rdstate * belief * list key :=
  match ops with
  | [] => (s, b, [])
  | p :: r =>
      let out := rd_step s p in
      let s' := fst out in
      let x := rd_run r s' (bel_update (rd_tbl s') (rd_now s') p (snd out) b) in
      (fst x, rd_hazard s p ++ snd x)
  end.

Definition rd_init : rdstate := mkRd [] 0 [].

(* A client-side discipline that rules the Redis hazards out: Unlock (for the keys whose
   flag is set) and IsLockedTTL are only issued for keys the caller currently believes
   to hold, i.e. never after its own TTL elapsed and never twice. *)
Definition polite_op (s : rdstate) (b : belief) (p : op) : bool :=
  match p with
  | OUnlock o ks => forallb (fun k => believerb b (rd_now s) o k) (rd_unlock_keys (rd_flags s) o ks)
  | OIsLockedTTL o _ ks => forallb (fun k => believerb b (rd_now s) o k) ks
  | _ => true
  end.

Fixpoint rd_polite (ops : list op) (s : rdstate) (b : belief) : bool :=
  match ops with
  | [] => true
  | p :: r =>
      polite_op s b p &&
      (let out := rd_step s p in
       rd_polite r (fst out) (bel_update (rd_tbl (fst out)) (rd_now (fst out)) p (snd out) b))
  end.

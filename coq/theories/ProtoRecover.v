(* Recovery of a torn phase-2 registry update from the priority log.

   Phase 1 ends by writing the priority log: the handles of the updated and removed nodes AS THEY STAND IN THE
   REGISTRY at that moment (claimed / marked, still resolving to the pre-commit blobs).  Phase 2 then writes the
   flipped handles one block at a time, so a crash can leave any subset of them written (ProtoCrash.torn_flip).
   The code contains a recovery for exactly this: priorityRollback / doPriorityRollbacks write the logged images
   back.  This file proves, for every consistent transaction and EVERY subset of written handles, that this
   write-back restores the registry of the end of phase 1 exactly, hence the pre-commit view.  (That the recovery
   is never started on the public path is C09's refutation; that the log holds these images — and not the
   activated ones — is compared with the implementation on every run: Corr/Proto.v, PlogAdd payload and plog
   content of the durable state.) *)
From Coq Require Import List ZArith NArith Bool Lia.
From SopVerif Require Import Proto ProtoProofs ProtoSuccess ProtoCrash.
Import ListNotations.
Local Open Scope N_scope.

(* death inside the phase-2 update: only the handles of the logical ids in [written] reached the registry *)
Definition torn_flip_sub (t : txn) (d : disk) (written : list N) : option disk :=
  match phase1 t (init d None) with
  | (Go, s1) =>
      match log finalizeCommit s1 with
      | (true, s2) => apply_call (dk s2) (RegUpd true (filter (fun h => mem (lid h) written) (to_flip t s2)))
      | _ => None
      end
  | _ => None
  end.

(* the recovery step: the logged images are written back, then the log is removed *)
Definition recover (d : disk) : option disk :=
  match plog d with
  | Some hs => match apply_call d (RegUpd false hs) with
               | Some d1 => apply_call d1 PlogRemove
               | None => None
               end
  | None => Some d
  end.

Section Recover.
Variable d : disk.
Variable t : txn.
Hypothesis HS : SW d t.

Definition logged : list handle := uh4 d t ++ rh4 d t.

Lemma logged_lids : map lid logged = ulids t ++ rlids t.
Proof.
  unfold logged. rewrite map_app, (uh4_eq d t HS), (rh4_eq d t HS), (uhs_lids d t HS), (mhs_lids d t HS). reflexivity.
Qed.

Lemma nodup_reg4 : NoDup (map lid (reg4 d t)).
Proof. unfold reg4, reg3, reg2, reg1. repeat apply nodup_fold_set. exact (SW_reg _ _ HS). Qed.

Lemma logged_lookup h : In h logged -> lookup (reg4 d t) (lid h) = Some h.
Proof.
  intros Hin. unfold logged, uh4, rh4 in Hin. apply in_app_or in Hin.
  apply lookup_nodup; [exact nodup_reg4|].
  destruct Hin as [Hin|Hin]; apply reg_get_In in Hin; exact (proj1 Hin).
Qed.

Lemma nodup_logged : NoDup (map lid logged).
Proof. rewrite logged_lids. destruct (ids_facts d t HS) as [_ [_ [_ [_ [N23 _]]]]]. exact N23. Qed.

(* whatever part fl' of the flip was written, writing the logged images back restores every registry entry *)
Lemma recover_restores fl' : (forall h, In h fl' -> In (lid h) (ulids t ++ rlids t)) ->
  forall l, lookup (fold_left reg_set logged (fold_left reg_set fl' (reg4 d t))) l = lookup (reg4 d t) l.
Proof.
  intros Hsub l. destruct (in_dec N.eq_dec l (ulids t ++ rlids t)) as [Hin|Hn].
  - rewrite <- logged_lids in Hin. apply in_map_iff in Hin. destruct Hin as [h [E Hh]]. subst l.
    rewrite (lookup_fold_set_in logged _ h nodup_logged Hh). symmetry. apply logged_lookup. exact Hh.
  - rewrite lookup_fold_set_notin.
    + apply lookup_fold_set_notin. intros h Hh E. apply Hn. rewrite <- E. apply Hsub. exact Hh.
    + intros h Hh E. apply Hn. rewrite <- logged_lids, <- E. apply in_map. exact Hh.
Qed.

Lemma filter_flips_lids written h :
  In h (filter (fun h => mem (lid h) written) (flips d t)) -> In (lid h) (ulids t ++ rlids t).
Proof.
  intros Hin. apply filter_In in Hin. destruct Hin as [Hin _].
  rewrite <- (flips_lids d t HS). apply in_map. exact Hin.
Qed.

(* the state after phase 1 and the finalizeCommit log entry, with the part fl' of the flip written *)
Definition torn_state (fl' : list handle) : disk :=
  mkD (fold_left reg_set fl' (reg4 d t)) (blobs4 d t) (upd_counts (counts d) (deltas t)) true
      (if nonempty (uh4 d t) || nonempty (rh4 d t) then Some logged else None).

Lemma torn_any (pick : list handle -> list handle) d1 :
  match phase1 t (init d None) with
  | (Go, s1) =>
      match log finalizeCommit s1 with
      | (true, s2) => apply_call (dk s2) (RegUpd true (pick (to_flip t s2)))
      | _ => None
      end
  | _ => None
  end = Some d1 -> d1 = torn_state (pick (flips d t)).
Proof.
  destruct (phase1_success d t (init d None) (SW_Guards d t HS) eq_refl eq_refl) as [s1 [E1 [F1 D1]]].
  rewrite E1. destruct (log_ok finalizeCommit s1 F1) as [s2 [E2 [F2 D2]]]. rewrite E2. rewrite D1 in D2.
  cbn [reg blobs counts tlog plog] in D2.
  assert (Hfl : to_flip t s2 = flips d t) by (unfold to_flip, cur_handles; rewrite D2; reflexivity).
  rewrite Hfl, D2. cbn [apply_call reg blobs counts tlog plog]. intros E. inversion E; subst d1. clear E.
  unfold torn_state. rewrite (SW_plog _ _ HS). reflexivity.
Qed.

Lemma torn_flip_sub_state written d1 : torn_flip_sub t d written = Some d1 ->
  d1 = torn_state (filter (fun h => mem (lid h) written) (flips d t)).
Proof. unfold torn_flip_sub. exact (torn_any (filter (fun h => mem (lid h) written)) d1). Qed.

Lemma torn_flip_state j d1 : torn_flip t d j = Some d1 -> d1 = torn_state (firstn j (flips d t)).
Proof. unfold torn_flip. exact (torn_any (firstn j) d1). Qed.

Lemma firstn_flips_lids j h : In h (firstn j (flips d t)) -> In (lid h) (ulids t ++ rlids t).
Proof.
  intros Hin. rewrite <- (flips_lids d t HS). apply in_map.
  rewrite <- (firstn_skipn j (flips d t)). apply in_or_app. left. exact Hin.
Qed.

Lemma recover_torn_state fl' d2 : (forall h, In h fl' -> In (lid h) (ulids t ++ rlids t)) ->
  recover (torn_state fl') = Some d2 ->
  (forall l, lookup (reg d2) l = lookup (reg4 d t) l) /\ blobs d2 = blobs4 d t /\ plog d2 = None.
Proof.
  intros Hsub Hr. unfold recover, torn_state in Hr. cbn [plog] in Hr.
  destruct (nonempty (uh4 d t) || nonempty (rh4 d t)) eqn:NE.
  - cbn [apply_call reg blobs counts tlog plog] in Hr. inversion Hr; subst d2. clear Hr. cbn [reg blobs plog].
    split; [|split; reflexivity]. intros l. apply recover_restores. exact Hsub.
  - inversion Hr; subst d2. clear Hr. cbn [reg blobs plog]. split; [|split; reflexivity]. intros l.
    assert (E0 : flips d t = []).
    { unfold flips. apply orb_false_elim in NE. destruct NE as [N1 N2].
      destruct (uh4 d t); [|discriminate]. destruct (rh4 d t); [|discriminate]. reflexivity. }
    destruct fl' as [|h fl']; [reflexivity|]. exfalso.
    specialize (Hsub h (or_introl eq_refl)). rewrite <- (flips_lids d t HS), E0 in Hsub. exact Hsub.
Qed.

Theorem torn_flip_recover_registry written d1 d2 :
  torn_flip_sub t d written = Some d1 -> recover d1 = Some d2 ->
  (forall l, lookup (reg d2) l = lookup (reg4 d t) l) /\ blobs d2 = blobs4 d t /\ plog d2 = None.
Proof.
  intros Ht Hr. apply torn_flip_sub_state in Ht. subst d1.
  eapply recover_torn_state; [|exact Hr]. intros h Hh. eapply filter_flips_lids. exact Hh.
Qed.

Theorem torn_prefix_recover_registry j d1 d2 :
  torn_flip t d j = Some d1 -> recover d1 = Some d2 ->
  (forall l, lookup (reg d2) l = lookup (reg4 d t) l) /\ blobs d2 = blobs4 d t /\ plog d2 = None.
Proof.
  intros Ht Hr. apply torn_flip_state in Ht. subst d1.
  eapply recover_torn_state; [|exact Hr]. intros h Hh. eapply firstn_flips_lids. exact Hh.
Qed.

(* hence every node that existed before the commit resolves, after the recovery, to the blob and version it had *)
Lemma restored_view d2 : wf_disk d -> W d t ->
  (forall l, lookup (reg d2) l = lookup (reg4 d t) l) -> blobs d2 = blobs4 d t ->
  forall l h0, lookup (reg d) l = Some h0 ->
    resolve d2 l = Some (active h0)
    /\ (exists h, lookup (reg d2) l = Some h /\ ver h = ver h0)
    /\ (In (active h0) (blobs d) -> In (active h0) (blobs d2)).
Proof.
  intros Hwf HW Hreg Hbl l h0 Hl.
  destruct (phase1_success d t (init d None) (SW_Guards d t HS) eq_refl eq_refl) as [s1 [E1 [F1 D1]]].
  assert (HJ0 : Jst d (init d None)) by (unfold Jst, init; cbn [dk]; apply J_init; exact Hwf).
  pose proof (pres_phase1 d t HW _ HJ0) as HJ. rewrite E1 in HJ. cbn [snd] in HJ. unfold Jst in HJ. rewrite D1 in HJ.
  destruct (J_dom _ _ HJ _ _ Hl) as [h Hh]. cbn [reg] in Hh.
  pose proof (lookup_In _ _ _ Hh) as [Hin Hlid].
  destruct (J_ok _ _ HJ h Hin) as [Hag _]. rewrite Hlid in Hag. destruct (Hag _ Hl) as [Ha Hv].
  split; [|split].
  - unfold resolve. rewrite Hreg, Hh, Ha. reflexivity.
  - exists h. split; [rewrite Hreg; exact Hh|exact Hv].
  - intros Hb. rewrite Hbl. exact (J_blob _ _ HJ _ _ Hl Hb).
Qed.

Theorem torn_flip_recover_view written d1 d2 : wf_disk d -> W d t ->
  torn_flip_sub t d written = Some d1 -> recover d1 = Some d2 ->
  forall l h0, lookup (reg d) l = Some h0 ->
    resolve d2 l = Some (active h0)
    /\ (exists h, lookup (reg d2) l = Some h /\ ver h = ver h0)
    /\ (In (active h0) (blobs d) -> In (active h0) (blobs d2)).
Proof.
  intros Hwf HW Ht Hr. destruct (torn_flip_recover_registry written d1 d2 Ht Hr) as [Hreg [Hbl _]].
  exact (restored_view d2 Hwf HW Hreg Hbl).
Qed.

Theorem torn_prefix_recover_view j d1 d2 : wf_disk d -> W d t ->
  torn_flip t d j = Some d1 -> recover d1 = Some d2 ->
  forall l h0, lookup (reg d) l = Some h0 ->
    resolve d2 l = Some (active h0)
    /\ (exists h, lookup (reg d2) l = Some h /\ ver h = ver h0)
    /\ (In (active h0) (blobs d) -> In (active h0) (blobs d2)).
Proof.
  intros Hwf HW Ht Hr. destruct (torn_prefix_recover_registry j d1 d2 Ht Hr) as [Hreg [Hbl _]].
  exact (restored_view d2 Hwf HW Hreg Hbl).
Qed.

(* the torn state and its recovery always exist *)
Lemma torn_flip_sub_defined written : exists d1, torn_flip_sub t d written = Some d1.
Proof.
  unfold torn_flip_sub.
  destruct (phase1_success d t (init d None) (SW_Guards d t HS) eq_refl eq_refl) as [s1 [E1 [F1 D1]]].
  rewrite E1. destruct (log_ok finalizeCommit s1 F1) as [s2 [E2 [F2 D2]]]. rewrite E2.
  cbn [apply_call]. eexists. reflexivity.
Qed.

End Recover.

Lemma recover_defined d1 : exists d2, recover d1 = Some d2.
Proof. unfold recover. destruct (plog d1) as [hs|]; cbn [apply_call]; eexists; reflexivity. Qed.

(* the hypotheses are satisfiable together *)
Example recover_hyps_nonvacuous : SW d_ex t_ex /\ wf_disk d_ex /\ W d_ex t_ex.
Proof.
  split; [exact SW_nonvacuous|]. split.
  - constructor.
    + cbn. repeat (constructor; [cbn; intros H; intuition discriminate|]). constructor.
    + intros h Hh. cbn in Hh. cbn. intros H. intuition (subst; cbn in *; intuition discriminate).
    + reflexivity.
  - constructor; cbn; repeat constructor; cbn; intros H; intuition discriminate.
Qed.

(* ---------------------------------------------------------------- concrete: the torn flip of ProtoCrash, recovered *)

Example torn_flip_recovered_ex :
  forallb (fun written =>
    match torn_flip_sub t_c d_c written with
    | Some d1 => match recover d1 with
                 | Some d2 => list_optN_eqb (view_of d2) old_view_staged
                 | None => false
                 end
    | None => false
    end) [[]; [10]; [13]; [11]; [10; 13]; [10; 11]; [13; 11]; [10; 13; 11]] = true
  /\ (exists d1, torn_flip_sub t_c d_c [10] = Some d1 /\ resolve d1 10 = Some 30 /\ resolve d1 13 = Some 13).
Proof. split; [vm_compute; reflexivity|]. eexists. split; [vm_compute; reflexivity|]. split; vm_compute; reflexivity. Qed.

(* what the recovery would do if the log held the ACTIVATED images (the order "activate, then log"): it completes
   the flip instead of undoing it, although Commit reported failure / the process died before the commit point *)
Definition recover_with (hs : list handle) (d : disk) : option disk := apply_call d (RegUpd false hs).

Example activated_images_do_not_restore :
  exists d1 d2 s1 s2, torn_flip_sub t_c d_c [10] = Some d1
    /\ phase1 t_c (init d_c None) = (Go, s1) /\ log finalizeCommit s1 = (true, s2)
    /\ recover_with (to_flip t_c s2) d1 = Some d2
    /\ resolve d2 10 = Some 30 /\ resolve d2 13 = Some 33.
Proof.
  eexists. eexists. eexists. eexists. split; [vm_compute; reflexivity|]. split; [vm_compute; reflexivity|].
  split; [vm_compute; reflexivity|]. split; [vm_compute; reflexivity|]. split; vm_compute; reflexivity.
Qed.

(* C13 — model of how fs.StoreRepository persists a StoreInfo: Add writes json.Marshal(store),
   Update patches count and timestamp in place (fast path) or re-marshals the caller's record
   (fallback). Definitions only. The patcher modelled is the REPAIRED one
   (fixes/C13-patch-top-level-key.patch); update_bytes_v0 is the code before the repair. *)
From Coq Require Import List ZArith NArith Bool.
From SopVerif Require Import Lib.Bytes StoreInfoPatchLib Gen.StoreInfoFields.
Import ListNotations.
Local Open Scope Z_scope.

(* encoding.Marshal(store) = json.Marshal *)
Definition ser (s : storeinfo) : list N := ser_object (storeinfo_members s).

Definition is_nil (l : list N) : bool := match l with [] => true | _ => false end.

(* One iteration of the loop in StoreRepository.Update for one store.
   file   : current content of <name>/storeinfo.txt
   cur    : what GetWithTTL returned (from the cache, else parsed from the file)
   caller : the element of `stores` passed in by the transaction; its CountDelta, Timestamp
            and NeedsMetaDataSave are used, and the whole record in the fallback.
   Result : new file content. *)
Definition update_with (patch : list N -> list N -> Z -> option (list N))
    (file : list N) (cur caller : storeinfo) : list N :=
  let cnt := si_count_field cur + si_CountDelta caller in
  let full := ser (set_count_timestamp caller cnt (si_timestamp_field caller)) in
  if negb (is_nil (si_Name cur)) && negb (si_NeedsMetaDataSave caller) then
    match patch file fieldCount cnt with
    | None => full
    | Some p1 =>
        match patch p1 fieldTimestamp (si_timestamp_field caller) with
        | None => full
        | Some p2 => p2
        end
    end
  else full.

Definition update_bytes := update_with patch_num.
Definition update_bytes_v0 := update_with patch_num_v0.

(* the configuration of a store: everything but count, timestamp and the two transient fields *)
Definition same_config (a b : storeinfo) : Prop :=
  set_count_timestamp a 0 0 = set_count_timestamp b 0 0.

(* A commit as seen by the repository: the count delta, the commit timestamp and whether the
   caller asked for a metadata save. *)
Record commit := mkCommit { c_delta : Z; c_ts : Z; c_needs_save : bool }.

(* the caller's record for a commit: the store's configuration with the commit's transient values *)
Definition caller_of (cfg : storeinfo) (c : commit) : storeinfo :=
  mkStoreInfo (si_Name cfg) (si_SlotLength cfg) (si_IsUnique cfg) (si_Description cfg) (si_RegistryTable cfg)
    (si_BlobTable cfg) (si_RootNodeID cfg) (si_Count cfg) (c_delta c) (c_ts c)
    (si_IsValueDataInNodeSegment cfg) (si_IsValueDataActivelyPersisted cfg) (si_IsValueDataGloballyCached cfg)
    (si_LeafLoadBalancing cfg) (si_CacheConfig cfg) (si_MapKeyIndexSpecification cfg) (si_CELexpression cfg)
    (si_IsPrimitiveKey cfg) (si_Relations cfg) (si_Schema cfg) (si_KeyFields cfg) (si_ValueFields cfg)
    (si_CustomData cfg) (c_needs_save c) (si_Version cfg).

(* repository state for one store: file bytes and the record the next GetWithTTL returns *)
Definition run_commits (upd : list N -> storeinfo -> storeinfo -> list N)
    (cfg : storeinfo) (cs : list commit) : list N * Z :=
  fold_left (fun '(file, count) c =>
               let cur := set_count_timestamp cfg count 0 in
               (upd file cur (caller_of cfg c), count + c_delta c))
            cs (ser cfg, si_count_field cfg).

Definition sum_deltas (cs : list commit) : Z := fold_left (fun a c => a + c_delta c) cs 0.
Definition last_ts (t0 : Z) (cs : list commit) : Z := fold_left (fun _ c => c_ts c) cs t0.

(* value ranges of the Go types and strings json can carry unchanged *)
Definition wf_storeinfo (s : storeinfo) : Prop :=
  valid_utf8 (si_Name s) = true /\ valid_utf8 (si_Description s) = true /\
  valid_utf8 (si_RegistryTable s) = true /\ valid_utf8 (si_BlobTable s) = true /\
  valid_utf8 (si_MapKeyIndexSpecification s) = true /\ valid_utf8 (si_CELexpression s) = true /\
  valid_utf8 (si_Version s) = true /\
  wf_uuid (si_RootNodeID s) /\
  (- 2 ^ 63 <= si_SlotLength s < 2 ^ 63) /\ (- 2 ^ 63 <= si_Count s < 2 ^ 63) /\ (- 2 ^ 63 <= si_Timestamp s < 2 ^ 63).

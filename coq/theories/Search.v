(* C32 model: the text index of /repo/search/index.go over four ordered maps.
   Strings are byte lists (Go strings compare bytewise).  The tokenizer is a parameter of the
   index functions: they take token lists.  (The concrete tokenizer model is SearchTok.v.)
   Definitions only. *)
From Coq Require Import List ZArith NArith Bool.
Import ListNotations.
Local Open Scope Z_scope.

Definition bytes := list N.
Definition bar : N := 124%N.     (* '|' *)

Fixpoint beqb (a b : bytes) : bool :=
  match a, b with
  | [], [] => true
  | x :: r, y :: q => N.eqb x y && beqb r q
  | _, _ => false
  end.
(* Go's string < : lexicographic on bytes *)
Fixpoint blt (a b : bytes) : bool :=
  match a, b with
  | _, [] => false
  | [], _ :: _ => true
  | x :: r, y :: q => if N.ltb x y then true else if N.eqb x y then blt r q else false
  end.
Fixpoint is_prefix (p k : bytes) : bool :=
  match p, k with
  | [], _ => true
  | _ :: _, [] => false
  | x :: r, y :: q => N.eqb x y && is_prefix r q
  end.

(* ---------- a unique-key ordered map as a key-sorted association list *)
Definition omap := list (bytes * Z).

Fixpoint om_find (k : bytes) (m : omap) : option Z :=
  match m with
  | [] => None
  | (k', v) :: r => if beqb k k' then Some v else om_find k r
  end.
(* Btree.Add on a unique store: false (and no change) when the key exists *)
Fixpoint om_add (k : bytes) (v : Z) (m : omap) : omap :=
  match m with
  | [] => [(k, v)]
  | (k', v') :: r =>
      if beqb k k' then m
      else if blt k k' then (k, v) :: m
      else (k', v') :: om_add k v r
  end.
Fixpoint om_set (k : bytes) (v : Z) (m : omap) : omap :=
  match m with
  | [] => []
  | (k', v') :: r => if beqb k k' then (k', v) :: r else (k', v') :: om_set k v r
  end.

(* ---------- the index *)
Record index := mkIndex {
  postings : omap;      (* "term|docID" -> frequency *)
  term_stats : omap;    (* term -> number of documents containing it *)
  doc_stats : omap;     (* docID -> length *)
  total_docs : Z;       (* global["total_docs"] *)
  total_len : Z         (* global["total_len"] *)
}.
Definition empty_index : index := mkIndex [] [] [] 0 0.

Definition pkey (t d : bytes) : bytes := t ++ bar :: d.

Fixpoint count_tok (t : bytes) (l : list bytes) : Z :=
  match l with [] => 0 | x :: r => (if beqb t x then 1 else 0) + count_tok t r end.
Fixpoint mem_tok (t : bytes) (l : list bytes) : bool :=
  match l with [] => false | x :: r => beqb t x || mem_tok t r end.
(* distinct tokens in order of first occurrence (the Go map's iteration order is arbitrary;
   the updates of distinct terms commute) *)
Fixpoint distinct_toks (l : list bytes) (seen : list bytes) : list bytes :=
  match l with
  | [] => []
  | x :: r => if mem_tok x seen then distinct_toks r seen else x :: distinct_toks r (x :: seen)
  end.

Definition add_term (d : bytes) (toks : list bytes) (ix : index) (t : bytes) : index :=
  let f := count_tok t toks in
  let p := om_add (pkey t d) f (postings ix) in
  let ts := match om_find t (term_stats ix) with
            | Some c => om_set t (c + 1) (term_stats ix)
            | None => om_add t 1 (term_stats ix)
            end in
  mkIndex p ts (doc_stats ix) (total_docs ix) (total_len ix).

(* Index.Add *)
Definition idx_add (ix : index) (d : bytes) (toks : list bytes) : index :=
  let dl := Z.of_nat (length toks) in
  let ix1 := mkIndex (postings ix) (term_stats ix) (om_add d dl (doc_stats ix)) (total_docs ix) (total_len ix) in
  let ix2 := fold_left (add_term d toks) (distinct_toks toks []) ix1 in
  mkIndex (postings ix2) (term_stats ix2) (doc_stats ix2) (total_docs ix2 + 1) (total_len ix2 + dl).

Definition idx_add_all (ix : index) (docs : list (bytes * list bytes)) : index :=
  fold_left (fun i dt => idx_add i (fst dt) (snd dt)) docs ix.

(* ---------- Search *)
(* what the score of one (term, document) pair is computed from:
   N, total length, n_q, frequency, document length (None: doc_stats miss, avgdl is used) *)
Definition contrib := (Z * Z * Z * Z * option Z)%type.
Definition hits := list (bytes * list contrib).     (* docID -> contributions, in accumulation order *)

Fixpoint acc_add (d : bytes) (c : contrib) (h : hits) : hits :=
  match h with
  | [] => [(d, [c])]
  | (d', cs) :: r => if beqb d d' then (d', cs ++ [c]) :: r else (d', cs) :: acc_add d c r
  end.

(* Btree.Find(startKey, true) on a miss leaves the cursor on a neighbour of the key: the greatest
   smaller item or the least greater one, depending on the shape of the tree ([o] decides where
   both exist).  n_lt = number of items smaller than the key. *)
Definition n_lt (p : bytes) (m : omap) : nat := length (filter (fun e => blt (fst e) p) m).
Definition cursor_on_miss (o : bool) (p : bytes) (m : omap) : nat :=
  let n := n_lt p m in
  if (o && Nat.ltb 0 n)%bool then (n - 1)%nat
  else if Nat.ltb n (length m) then n else (n - 1)%nat.

(* the loop "Iterate while prefix matches" from cursor position i *)
Fixpoint scan_loop (fuel : nat) (p : bytes) (m : omap) (i : nat) (emit : list (bytes * Z)) : list (bytes * Z) :=
  match fuel with
  | O => emit
  | S fu =>
      match nth_error m i with
      | None => emit
      | Some (k, f) =>
          if is_prefix p k then scan_loop fu p m (S i) (emit ++ [(skipn (length p) k, f)])
          else emit
      end
  end.

(* position the cursor, handle the miss, scan: the (docID, frequency) pairs of term t *)
Definition scan_term (o : bool) (t : bytes) (m : omap) : list (bytes * Z) :=
  let p := t ++ [bar] in
  match m with
  | [] => []                                   (* Find on an empty tree; GetCurrentItem gives the zero item *)
  | _ =>
    match om_find p m with
    | Some _ => scan_loop (length m) p m (n_lt p m) []          (* found: cursor on the item itself *)
    | None =>
        let i := cursor_on_miss o p m in
        match nth_error m i with
        | None => []
        | Some (k, _) =>
            if blt k p then
              (if Nat.ltb (S i) (length m) then scan_loop (length m) p m (S i) [] else [])   (* Next; end of index *)
            else scan_loop (length m) p m i []
        end
    end
  end.

Definition search_term (o : bool) (ix : index) (h : hits) (t : bytes) : hits :=
  match om_find t (term_stats ix) with
  | None => h
  | Some nq =>
      fold_left (fun h' df => acc_add (fst df) (total_docs ix, total_len ix, nq, snd df, om_find (fst df) (doc_stats ix)) h')
                (scan_term o t (postings ix)) h
  end.

(* Index.Search before the final sort.  [os]: one tree-shape bit per query token. *)
Fixpoint search_terms (os : list bool) (ix : index) (h : hits) (q : list bytes) : hits :=
  match q with
  | [] => h
  | t :: r => search_terms (tl os) ix (search_term (hd false os) ix h t) r
  end.
Definition idx_search (os : list bool) (ix : index) (q : list bytes) : hits :=
  match q with
  | [] => []
  | _ => if total_docs ix =? 0 then [] else search_terms os ix [] q
  end.

(* the final sort.Slice(results, score descending), for any score type with a total order *)
Section Sort.
  Variable A : Type.
  Variable geb : A -> A -> bool.     (* geb a b: score a >= score b *)
  Fixpoint insert_desc (x : A) (l : list A) : list A :=
    match l with
    | [] => [x]
    | y :: r => if geb x y then x :: l else y :: insert_desc x r
    end.
  Fixpoint sort_desc (l : list A) : list A :=
    match l with [] => [] | x :: r => insert_desc x (sort_desc r) end.
End Sort.
Arguments sort_desc {A}.
Arguments insert_desc {A}.

(* the reference ("true") statistics of a corpus *)
Definition corpus := list (bytes * list bytes).
Definition docs_with (t : bytes) (c : corpus) : corpus := filter (fun dt => mem_tok t (snd dt)) c.
Definition ref_total_len (c : corpus) : Z := fold_right (fun dt a => Z.of_nat (length (snd dt)) + a) 0 c.

(* Histories of transactions over the commit-protocol model: the persisted item counts after any history of
   committed and failed commits are the initial counts plus the deltas of exactly the committed ones. *)
From Coq Require Import List ZArith NArith Bool Lia.
From SopVerif Require Import Proto ProtoProofs ProtoSuccess.
Import ListNotations.
Local Open Scope N_scope.

(* one step of a history: a transaction and the fault injected into its commit *)
Definition hstep := (txn * option nat)%type.

Fixpoint run_history (h : list hstep) (d : disk) : disk * list outcome :=
  match h with
  | [] => (d, [])
  | (t, f) :: h' =>
      let '(o, d', _) := run t d f in
      let '(d'', os) := run_history h' d' in (d'', o :: os)
  end.

(* sum of the count deltas of the steps that committed *)
Fixpoint committed_delta (h : list hstep) (os : list outcome) (s : N) : Z :=
  match h, os with
  | (t, _) :: h', Committed :: os' => (delta_of (deltas t) s + committed_delta h' os' s)%Z
  | _ :: h', _ :: os' => committed_delta h' os' s
  | _, _ => 0%Z
  end.

(* what each step must satisfy in the state it starts from: a fault-free step is a consistent transaction (SW);
   a faulted step does not commit (post-commit faults are outside this statement) and its rollback deltas negate
   its commit deltas *)
Inductive hist_ok : disk -> list hstep -> Prop :=
| hist_nil d : hist_ok d []
| hist_clean d t h : SW d t -> (forall d' tr, run t d None = (Committed, d', tr) -> hist_ok d' h) -> hist_ok d ((t, None) :: h)
| hist_fault d t n h :
    (tracked t = true \/ forall s, delta_of (deltas t) s = 0%Z) ->
    (forall s, delta_of (rb_stores t) s = (- delta_of (deltas t) s)%Z) ->
    fst (fst (run t d (Some n))) <> Committed ->
    hist_ok (snd (fst (run t d (Some n)))) h ->
    hist_ok d ((t, Some n) :: h).

Theorem history_counts h : forall d, hist_ok d h ->
  forall s, count_of (fst (run_history h d)) s = (count_of d s + committed_delta h (snd (run_history h d)) s)%Z.
Proof.
  induction h as [|[t f] h IH]; intros d Hok s.
  - cbn. lia.
  - inversion Hok as [|d0 t0 h0 HSW Hnext|d0 t0 n h0 Htr Hneg Hnc Hnext]; subst.
    + destruct (commit_success_outcome d t HSW) as [d' [tr E]].
      cbn [run_history]. rewrite E.
      specialize (Hnext d' tr E). specialize (IH d' Hnext s).
      destruct (run_history h d') as [d'' os] eqn:Eh. cbn [fst snd] in *. cbn [committed_delta].
      destruct (commit_success_view d t d' tr HSW E) as [_ [_ [_ [_ [_ [_ Hc]]]]]].
      rewrite IH, Hc. lia.
    + cbn [run_history]. destruct (run t d (Some n)) as [[o d'] tr] eqn:E. cbn [fst snd] in *.
      specialize (IH d' Hnext s).
      destruct (run_history h d') as [d'' os] eqn:Eh. cbn [fst snd] in *.
      pose proof (failed_commit_preserves_counts t d (Some n) o d' tr Htr Hneg E Hnc s) as Hc.
      rewrite IH, Hc. destruct o; cbn [committed_delta]; try lia. contradiction.
Qed.

(* Proofs about HandleProto, part 6: preservation of Inv by the steps that write the registry, and the theorems. *)
From Coq Require Import List ZArith NArith Bool Lia PeanoNat.
From SopVerif Require Import Proto ProtoProofs HandleProto HandleProtoProofs HandleProtoInv HandleProtoInv2 HandleProtoInv3 HandleProtoInv4.
Import ListNotations.
Local Open Scope N_scope.

Lemma step_LFlipFail s i s' : Inv s -> step strict s (LFlipFail i) = Some s' -> Inv s'.
Proof.
  intros I H. open_tx H t Et. destruct (_ && _) eqn:E; [|discriminate]. inversion H; subst s'. split_andb. live_pc.
  pose proof (i_tx _ I _ _ Et) as O.
  assert (Hh : hold_pc (t_pc t) = true) by (rewrite H1; reflexivity).
  eapply inv_local with (t := t); try reflexivity; try eassumption.
  constructor; cbn [with_pend t_crashed t_rem t_marked t_pc t_pend t_claimed t_plog t_upd]; unfold upd_lids; cbn [t_upd]; try discriminate.
  - exact (o_norem _ _ _ O).
  - exact (o_nd _ _ _ O).
  - intros _ _. exact (o_lock _ _ _ O H0 Hh).
  - intros _ k h Hin. destruct (t_plog t) as [hs|] eqn:Ep; [|destruct Hin].
    apply in_tag in Hin. destruct Hin as [-> Hin]. split; [reflexivity|].
    destruct (o_pres _ _ _ O H0 Hh h (o_plog _ _ _ O hs Ep h Hin)) as (Hl & h0 & Hlk).
    split; [exact Hl|]. exists h0. split; [exact Hlk|exact Logic.I].
  - intros _ _. exact (o_pres _ _ _ O H0 Hh).
  - exact (o_plog _ _ _ O).
  - intros [X|X]; discriminate.
Qed.

(* ------------------------------------------------------------------ LWrite *)

Lemma live_installs_ev i k g hist x :
  In x (live_installs (ev_of i k g ++ hist)) ->
  match k with
  | WFlip | WTouch => x = (i, lid g, (ver g - 1)%Z) \/ In x (live_installs hist)
  | WRestore => In x (live_installs hist) /\ snd (fst x) <> lid g
  | _ => In x (live_installs hist)
  end.
Proof.
  destruct k; cbn [ev_of app live_installs]; intros H; try exact H.
  - destruct H as [<-|H]; [left; reflexivity|right; exact H].
  - destruct H as [<-|H]; [left; reflexivity|right; exact H].
  - apply filter_In in H. destruct H as [H1 H2]. split; [exact H1|]. apply negb_true_iff in H2. apply N.eqb_neq in H2. exact H2.
Qed.

Lemma step_LWrite s i s' : Inv s -> step strict s (LWrite i) = Some s' -> Inv s'.
Proof.
  intros I H. open_tx H t Et. destruct (live t) eqn:Hlv; [|discriminate]. live_pc.
  destruct (t_pend t) as [|[k g] r] eqn:Ep; [discriminate|]. inversion H; subst s'. clear H.
  pose proof (i_tx _ I _ _ Et) as O.
  destruct (o_pend _ _ _ O Hlv k g) as (Hk & Hlg & h0g & Hlkg & Hdg); [rewrite Ep; left; reflexivity|].
  pose proof (kind_ok_hold _ _ Hk) as Hh.
  assert (LK : forall l, lookup (reg_set (sreg s) g) l = if lid g =? l then Some g else lookup (sreg s) l) by (intros; apply lookup_reg_set).
  eapply inv_assemble with (t := t) (t' := with_pend t (t_pc t) r); try reflexivity; try eassumption.
  - (* the others *)
    intros j tj Hne Hj Hc Hhj l Hl. cbn [slocks sreg]. split; [reflexivity|].
    intros h0 Hlk. rewrite LK. destruct (N.eqb_spec (lid g) l) as [<-|Hn]; [|eauto].
    exfalso. apply Hne. symmetry. eapply (holder_unique s i j t tj (lid g)); eassumption.
  - (* the writer *)
    constructor; cbn [with_pend t_crashed t_rem t_marked t_pc t_pend t_claimed t_plog t_upd slocks sreg]; unfold upd_lids; cbn [t_upd].
    + exact (o_norem _ _ _ O).
    + exact (o_nd _ _ _ O).
    + exact (o_lock _ _ _ O).
    + intros _ k' h Hin.
      destruct (o_pend _ _ _ O Hlv k' h) as (Hk' & Hl & h0 & Hlk & Hd); [rewrite Ep; right; exact Hin|].
      split; [exact Hk'|]. split; [exact Hl|]. rewrite LK.
      destruct (N.eqb_spec (lid g) (lid h)) as [Eq|Hn]; [|eauto].
      exists g. split; [reflexivity|].
      rewrite <- Eq in Hlk. rewrite Hlkg in Hlk. inversion Hlk; subst h0.
      destruct (t_pc t) eqn:Hpc; destruct k; try discriminate Hk; destruct k'; try discriminate Hk'; cbn [delta_ok] in *; try exact Logic.I; try congruence.
      all: exfalso; pose proof (o_pend_nd _ _ _ O Hpc) as ND; rewrite Ep in ND; cbn [map snd] in ND;
        inversion ND as [|? ? Hni _]; subst; apply Hni; rewrite Eq;
        exact (in_map (fun p : wkind * handle => lid (snd p)) _ _ Hin).
    + intros Hpc. pose proof (o_pend_nd _ _ _ O Hpc) as ND. rewrite Ep in ND. cbn [map] in ND. inversion ND; assumption.
    + intros _ Hh' c Hin. destruct (o_pres _ _ _ O Hlv Hh' c Hin) as (Hl & h0 & Hlk). split; [exact Hl|].
      rewrite LK. destruct (lid g =? lid c); eauto.
    + intros _ Hi c h0' Hin Hlk'. rewrite LK in Hlk'.
      destruct (N.eqb_spec (lid g) (lid c)) as [Eq|Hn].
      * inversion Hlk'; subst h0'. rewrite Eq in Hlkg. rewrite <- (o_img _ _ _ O Hlv Hi c h0g Hin Hlkg).
        destruct (t_pc t); try discriminate Hi; destruct k; try discriminate Hk; cbn [delta_ok] in Hdg; exact Hdg.
      * exact (o_img _ _ _ O Hlv Hi c h0' Hin Hlk').
    + exact (o_img_nd _ _ _ O).
    + exact (o_plog _ _ _ O).
    + exact (o_start _ _ _ O).
  - (* installs that are still in force are below the registered version *)
    cbn [shist sreg]. intros j l v Hin. apply live_installs_ev in Hin. rewrite LK.
    destruct k; cbn [delta_ok] in Hdg.
    + destruct (i_hist _ I _ _ _ Hin) as (h0 & Hlk & Hv). destruct (N.eqb_spec (lid g) l) as [<-|Hn]; [|eauto].
      rewrite Hlkg in Hlk. inversion Hlk; subst h0. exists g. split; [reflexivity|lia].
    + destruct (i_hist _ I _ _ _ Hin) as (h0 & Hlk & Hv). destruct (N.eqb_spec (lid g) l) as [<-|Hn]; [|eauto].
      rewrite Hlkg in Hlk. inversion Hlk; subst h0. exists g. split; [reflexivity|lia].
    + destruct Hin as [E|Hin].
      * inversion E; subst j l v. rewrite N.eqb_refl. exists g. split; [reflexivity|lia].
      * destruct (i_hist _ I _ _ _ Hin) as (h0 & Hlk & Hv). destruct (N.eqb_spec (lid g) l) as [<-|Hn]; [|eauto].
        rewrite Hlkg in Hlk. inversion Hlk; subst h0. exists g. split; [reflexivity|lia].
    + destruct Hin as [E|Hin].
      * inversion E; subst j l v. rewrite N.eqb_refl. exists g. split; [reflexivity|lia].
      * destruct (i_hist _ I _ _ _ Hin) as (h0 & Hlk & Hv). destruct (N.eqb_spec (lid g) l) as [<-|Hn]; [|eauto].
        rewrite Hlkg in Hlk. inversion Hlk; subst h0. exists g. split; [reflexivity|lia].
    + destruct (i_hist _ I _ _ _ Hin) as (h0 & Hlk & Hv). destruct (N.eqb_spec (lid g) l) as [<-|Hn]; [|eauto].
      rewrite Hlkg in Hlk. inversion Hlk; subst h0. exists g. split; [reflexivity|lia].
    + destruct Hin as [Hin Hne]. cbn [snd fst] in Hne.
      destruct (i_hist _ I _ _ _ Hin) as (h0 & Hlk & Hv). destruct (N.eqb_spec (lid g) l) as [<-|Hn]; [contradiction|eauto].
  - (* no second install of a version that is still in force *)
    cbn [shist]. destruct k; cbn [ev_of app hist_ok succ_of]; try exact (i_hok _ I); cbn [delta_ok] in Hdg.
    + split; [exact (i_hok _ I)|]. intros j l v E j' Hin. inversion E; subst j l v.
      destruct (i_hist _ I _ _ _ Hin) as (h0 & Hlk & Hv). rewrite Hlkg in Hlk. inversion Hlk; subst h0. lia.
    + split; [exact (i_hok _ I)|]. intros j l v E j' Hin. inversion E; subst j l v.
      destruct (i_hist _ I _ _ _ Hin) as (h0 & Hlk & Hv). rewrite Hlkg in Hlk. inversion Hlk; subst h0. lia.
    + split; [exact (i_hok _ I)|]. intros j l v E. discriminate.
Qed.

(* ------------------------------------------------------------------ environment steps that write the registry *)

Lemma step_LAge s l s' : Inv s -> step strict s (LAge l) = Some s' -> Inv s'.
Proof.
  intros I H. cbn [step] in H. destruct (lookup (sreg s) l) as [h|] eqn:El; [|discriminate].
  destruct (_ && _) eqn:E; [|discriminate]. inversion H; subst s'. clear H.
  destruct (lookup_In _ _ _ El) as [_ Hlid].
  set (h' := mkH (lid h) (ida h) (idb h) (activeB h) (ver h) 1 (del h)).
  assert (LK : forall x, lookup (reg_set (sreg s) h') x = if l =? x then Some h' else lookup (sreg s) x).
  { intros x. rewrite lookup_reg_set. subst h'. cbn [lid]. rewrite Hlid. reflexivity. }
  assert (ST : forall x h0, lookup (sreg s) x = Some h0 -> exists h0', lookup (reg_set (sreg s) h') x = Some h0' /\ ver h0' = ver h0).
  { intros x h0 Hx. rewrite LK. destruct (N.eqb_spec l x) as [<-|]; [|eauto].
    rewrite El in Hx. inversion Hx; subst h0. exists h'. split; reflexivity. }
  eapply inv_env; [exact I|reflexivity| | |exact (i_hok _ I)].
  - intros j tj Hj Hc Hh x Hx. cbn [slocks sreg]. split; [reflexivity|]. intros h0. apply ST.
  - cbn [shist sreg]. intros j x v Hin. destruct (i_hist _ I _ _ _ Hin) as (h0 & Hlk & Hv).
    destruct (ST _ _ Hlk) as (h0' & Hlk' & Hv'). exists h0'. split; [exact Hlk'|lia].
Qed.

Lemma step_LAddNode s l s' : Inv s -> step strict s (LAddNode l) = Some s' -> Inv s'.
Proof.
  intros I H. cbn [step] in H. destruct (fresh_id s l); [|discriminate]. inversion H; subst s'. clear H.
  eapply inv_env; [exact I|reflexivity| | |exact (i_hok _ I)].
  - intros j tj Hj Hc Hh x Hx. cbn [slocks sreg]. split; [reflexivity|]. intros h0 Hlk. exists h0. split; [apply lookup_app_some; exact Hlk|reflexivity].
  - cbn [shist sreg]. intros j x v Hin. destruct (i_hist _ I _ _ _ Hin) as (h0 & Hlk & Hv).
    exists h0. split; [apply lookup_app_some; exact Hlk|exact Hv].
Qed.

Lemma live_installs_undos c imgs hist x :
  In x (live_installs (map (fun h => EUndo c (lid h)) imgs ++ hist)) ->
  In x (live_installs hist) /\ ~ In (snd (fst x)) (map lid imgs).
Proof.
  induction imgs as [|g imgs IH]; cbn [map app live_installs]; intros H; [split; [exact H|intros []]|].
  apply filter_In in H. destruct H as [H1 H2]. destruct (IH H1) as [IH1 IH2]. split; [exact IH1|].
  apply negb_true_iff, N.eqb_neq in H2. intros [E|E]; [apply H2; symmetry; exact E|exact (IH2 E)].
Qed.

Lemma hist_ok_undos c imgs hist : hist_ok hist -> hist_ok (map (fun h => EUndo c (lid h)) imgs ++ hist).
Proof.
  intros H. induction imgs as [|g imgs IH]; cbn [map app hist_ok]; [exact H|].
  split; [exact IH|]. intros j l v E. discriminate.
Qed.

Lemma step_LPrio s c s' : Inv s -> step strict s (LPrio c) = Some s' -> Inv s'.
Proof.
  intros I H. open_tx H t Et. destruct (t_plog t) as [imgs|] eqn:Ep; [|discriminate].
  destruct (_ && free_or_own _ _ _) eqn:E; [|discriminate]. apply andb_true_iff in E. destruct E as [Hcr Hfo].
  cbn [strict h_lock negb orb] in Hcr.
  pose proof (i_tx _ I _ _ Et) as O.
  (* a node held by a live transaction is not among the logged ones *)
  assert (NOT : forall j tj l, get_tx s j = Some tj -> t_crashed tj = false -> hold_pc (t_pc tj) = true -> In l (upd_lids tj) -> ~ In l (map lid imgs)).
  { intros j tj l Hj Hc Hh Hl Hin.
    pose proof (o_lock _ _ _ (i_tx _ I _ _ Hj) Hc Hh l Hl) as E1.
    pose proof (forallb_In _ _ _ Hfo Hin) as E2. cbn beta in E2. rewrite E1 in E2. apply Nat.eqb_eq in E2. subst j.
    rewrite Et in Hj. inversion Hj; subst tj. congruence. }
  assert (LKS : forall j tj l, get_tx s j = Some tj -> t_crashed tj = false -> hold_pc (t_pc tj) = true -> In l (upd_lids tj) ->
            lock_of (filter (fun p => negb (mem (fst p) (map lid imgs))) (slocks s)) l = lock_of (slocks s) l).
  { intros j tj l Hj Hc Hh Hl. apply lock_of_filter. intros o. cbn [fst].
    destruct (mem l (map lid imgs)) eqn:Em; [|reflexivity]. apply mem_In in Em. exfalso. exact (NOT _ _ _ Hj Hc Hh Hl Em). }
  assert (CR : txn_ok s c (with_plog t (t_pc t) None)).
  { constructor; cbn [with_plog t_crashed t_rem t_marked t_pc t_pend t_claimed t_plog t_upd]; unfold upd_lids; cbn [t_upd]; try (intros X; congruence).
    - exact (o_norem _ _ _ O).
    - exact (o_nd _ _ _ O).
    - exact (o_pend_nd _ _ _ O).
    - exact (o_img_nd _ _ _ O).
    - exact (o_start _ _ _ O). }
  destruct (prio_ver_ok (sreg s) imgs); inversion H; subst s'; clear H.
  - eapply inv_assemble with (t := t); try reflexivity; try eassumption.
    + intros j tj Hne Hj Hc Hh l Hl. cbn [slocks sreg]. split; [exact (LKS _ _ _ Hj Hc Hh Hl)|].
      intros h0 Hlk. exists h0. split; [|reflexivity]. rewrite lookup_fold_set_other; [exact Hlk|exact (NOT _ _ _ Hj Hc Hh Hl)].
    + eapply txn_ok_frame; [exact CR|]. intros X. cbn in X. congruence.
    + cbn [shist sreg]. intros j l v Hin. apply live_installs_undos in Hin. destruct Hin as [Hin Hn]. cbn [snd fst] in Hn.
      destruct (i_hist _ I _ _ _ Hin) as (h0 & Hlk & Hv). exists h0. split; [|exact Hv].
      rewrite lookup_fold_set_other; assumption.
    + cbn [shist]. apply hist_ok_undos. exact (i_hok _ I).
  - eapply inv_env; [exact I|reflexivity| |exact (i_hist _ I)|].
    + intros j tj Hj Hc Hh l Hl. cbn [slocks sreg]. split; [exact (LKS _ _ _ Hj Hc Hh Hl)|eauto].
    + cbn [shist hist_ok succ_of]. split; [exact (i_hok _ I)|]. intros j l v X. discriminate.
Qed.


(* ------------------------------------------------------------------ reordering of the pending undo batch *)

Lemma handle_eqb_eq x y : handle_eqb x y = true -> x = y.
Proof.
  unfold handle_eqb. intros H. repeat (apply andb_true_iff in H; destruct H as [H ?]).
  destruct x, y; cbn in *.
  repeat match goal with
         | E : (_ =? _) = true |- _ => apply N.eqb_eq in E
         | E : (_ =? _)%Z = true |- _ => apply Z.eqb_eq in E
         | E : Bool.eqb _ _ = true |- _ => apply Bool.eqb_prop in E
         end.
  subst. reflexivity.
Qed.

Lemma pend_eqb_eq p q : pend_eqb p q = true -> p = q.
Proof.
  unfold pend_eqb. intros H. apply andb_true_iff in H. destruct H as [H1 H2]. apply handle_eqb_eq in H2.
  destruct p as [k h], q as [k' h']. cbn in *. subst. destruct k, k'; cbn in H1; try discriminate; reflexivity.
Qed.

Lemma step_LPermute s i pd s' : Inv s -> step strict s (LPermute i pd) = Some s' -> Inv s'.
Proof.
  intros I H. open_tx H t Et. destruct (_ && _) eqn:E; [|discriminate]. inversion H; subst s'.
  apply andb_true_iff in E. destruct E as [E Hperm]. apply andb_true_iff in E. destruct E as [H0 H3]. live_pc.
  pose proof (i_tx _ I _ _ Et) as O.
  assert (Hh : hold_pc (t_pc t) = true) by (rewrite H3; reflexivity).
  assert (SUB : forall x, In x pd -> In x (t_pend t)).
  { intros x Hx. unfold perm_of in Hperm. apply andb_true_iff in Hperm. destruct Hperm as [Hp1 _]. apply andb_true_iff in Hp1. destruct Hp1 as [_ H4].
    pose proof (forallb_In _ _ _ H4 Hx) as Hex. cbn beta in Hex.
    apply existsb_exists in Hex. destruct Hex as (y & Hy & Heq). apply pend_eqb_eq in Heq. subst y. exact Hy. }
  eapply inv_local with (t := t); try reflexivity; try eassumption.
  constructor; cbn [with_pend t_crashed t_rem t_marked t_pc t_pend t_claimed t_plog t_upd]; unfold upd_lids; cbn [t_upd]; try discriminate.
  - exact (o_norem _ _ _ O).
  - exact (o_nd _ _ _ O).
  - intros _ _. exact (o_lock _ _ _ O H0 Hh).
  - intros _ k h Hin. destruct (o_pend _ _ _ O H0 k h (SUB _ Hin)) as (Hk & Hl & Hex). rewrite H3 in Hk. split; [exact Hk|]. split; [exact Hl|exact Hex].
  - intros _ _. exact (o_pres _ _ _ O H0 Hh).
  - exact (o_plog _ _ _ O).
  - intros [X|X]; discriminate.
Qed.

(* ------------------------------------------------------------------ every step preserves the invariant *)

Theorem inv_step s lab s' : Inv s -> step strict s lab = Some s' -> Inv s'.
Proof.
  intros I H. destruct lab.
  - eapply step_LLock; eassumption.
  - eapply step_LClaim; eassumption.
  - eapply step_LWrite; eassumption.
  - eapply step_LBlob; eassumption.
  - eapply step_LMark; eassumption.
  - eapply step_LPlog; eassumption.
  - eapply step_LCheck; eassumption.
  - eapply step_LFlipFail; eassumption.
  - eapply step_LPlogRm; eassumption.
  - eapply step_LUnlock; eassumption.
  - eapply step_LCleanBlobs; eassumption.
  - eapply step_LCleanReg; eassumption.
  - eapply step_LRollback; eassumption.
  - eapply step_LCrash; eassumption.
  - eapply step_LLockExpire; eassumption.
  - eapply step_LAge; eassumption.
  - eapply step_LPrio; eassumption.
  - eapply step_LAddNode; eassumption.
  - eapply step_LPermute; eassumption.
Qed.

Theorem inv_reachable s0 s : wf_init s0 -> reachable strict s0 s -> Inv s.
Proof.
  intros W R. induction R as [|s lab s' _ IH Hs]; [apply inv_init; exact W|eapply inv_step; eassumption].
Qed.

(* Stage 1 of the refinement proof, third part: Next on every tree-shaped state with correct
   parent links.  moveToNext either descends to the first item of the right child or climbs
   through the parent pointers (getIndexOfChild) to the first ancestor slot not yet passed. *)
From Coq Require Import List ZArith NArith Bool Lia.
From Coq Require Import ZifyBool ZifyNat ZifyN.
From SopVerif Require Import OMap OMapProofs OMapProofs2 Btree BtreeSim BtreeProofs BtreeProofs2 BtreeLemmas BtreeShape BtreeFind.
Import ListNotations.
Local Open Scope Z_scope.

(* shape with parent links: every node names its parent, and getIndexOfChild finds every
   non-nil child at its own position *)
Inductive pshape (m : nodemap) (L : Z) : nat -> N -> N -> list item -> Prop :=
| PShape : forall h id p n kids,
    id <> 0%N -> nm_get m id = Some n -> nparent n = p ->
    1 <= ncount n -> ncount n <= Z.of_nat (length (nslots n)) ->
    (nchildren n = None -> forall i, nth i kids [] = []) ->
    (forall ch, nchildren n = Some ch -> forall i, (i <= Z.to_nat (ncount n))%nat ->
        (nth i ch 0%N = 0%N /\ nth i kids [] = []) \/
        (nth i ch 0%N <> 0%N /\ index_of_child L n (nth i ch 0%N) = Z.of_nat i /\
         pshape m L h (nth i ch 0%N) id (nth i kids []))) ->
    pshape m L (S h) id p (node_list n kids).

Lemma pshape_shape : forall m L h id p l, pshape m L h id p l -> shape m h id l.
Proof.
  intros m L h. induction h as [|h IH]; intros id p l H; [inversion H|].
  inversion H as [h' id' p' n kids Hid Hget Hpar Hcnt Hlen Hnone Hsome]; subst.
  apply Shape; auto. intros ch Hch i Hi.
  destruct (Hsome ch Hch i Hi) as [[H0 Hk]|[Hn0 [_ Hsh]]]; [left; auto|right; split; auto]. eapply IH; eauto.
Qed.

(* the premises of PShape for a given node record and child lists *)
Definition pnode (m : nodemap) (L : Z) (h : nat) (id p : N) (n : node) (kids : list (list item)) : Prop :=
  id <> 0%N /\ nm_get m id = Some n /\ nparent n = p /\
  1 <= ncount n /\ ncount n <= Z.of_nat (length (nslots n)) /\
  (nchildren n = None -> forall i, nth i kids [] = []) /\
  (forall ch, nchildren n = Some ch -> forall i, (i <= Z.to_nat (ncount n))%nat ->
      (nth i ch 0%N = 0%N /\ nth i kids [] = []) \/
      (nth i ch 0%N <> 0%N /\ index_of_child L n (nth i ch 0%N) = Z.of_nat i /\
       pshape m L h (nth i ch 0%N) id (nth i kids []))).

Lemma pnode_pshape : forall m L h id p n kids, pnode m L h id p n kids -> pshape m L (S h) id p (node_list n kids).
Proof. intros m L h id p n kids [H1 [H2 [H3 [H4 [H5 [H6 H7]]]]]]. apply PShape; auto. Qed.

Lemma pshape_inv : forall m L H id p T, pshape m L H id p T ->
  exists h n kids, H = S h /\ T = node_list n kids /\ pnode m L h id p n kids.
Proof.
  intros m L H id p T Hp. inversion Hp as [h id' p' n kids H1 H2 H3 H4 H5 H6 H7]; subst.
  exists h, n, kids. repeat split; auto.
Qed.

(* the part of a node's list that follows child i: slot i and everything after it *)
Definition rest_from (n : node) (kids : list (list item)) (i : nat) : list item :=
  (if Nat.ltb i (Z.to_nat (ncount n)) then [nth i (nslots n) zero_item] else [])
  ++ flat_map (piece n kids) (seq (S i) (Z.to_nat (ncount n) - i)).

Lemma node_list_at : forall n kids i, (i <= Z.to_nat (ncount n))%nat ->
  node_list n kids = flat_map (piece n kids) (seq 0 i) ++ nth i kids [] ++ rest_from n kids i.
Proof.
  intros n kids i Hi. rewrite (node_list_split n kids i Hi). unfold piece at 2, rest_from.
  rewrite <- app_assoc. reflexivity.
Qed.

Lemma rest_from_last : forall n kids, rest_from n kids (Z.to_nat (ncount n)) = [].
Proof. intros. unfold rest_from. rewrite Nat.ltb_irrefl, Nat.sub_diag. reflexivity. Qed.

Lemma rest_from_lt : forall n kids i, (i < Z.to_nat (ncount n))%nat ->
  rest_from n kids i = nth i (nslots n) zero_item :: nth (S i) kids [] ++ rest_from n kids (S i).
Proof.
  intros n kids i Hi. unfold rest_from. assert (E : Nat.ltb i (Z.to_nat (ncount n)) = true) by (apply Nat.ltb_lt; lia).
  rewrite E. cbn [app]. f_equal.
  replace (Z.to_nat (ncount n) - i)%nat with (S (Z.to_nat (ncount n) - S i)) by lia.
  cbn [seq flat_map]. unfold piece at 1. rewrite <- app_assoc. reflexivity.
Qed.

(* where a node sits: loc d H top p T nid n' kids' A B says node nid (record n', child lists
   kids') lies d levels below top (a subtree of height bound H, parent p, list T) and
   T = A ++ node_list n' kids' ++ B *)
Inductive loc (m : nodemap) (L : Z) : nat -> nat -> N -> N -> list item -> N -> node -> list (list item) -> list item -> list item -> Prop :=
| LocHere : forall h id p n kids, pnode m L h id p n kids ->
    loc m L 0 (S h) id p (node_list n kids) id n kids [] []
| LocChild : forall d h id p n kids ch j nid n' kids' A B,
    pnode m L h id p n kids -> nchildren n = Some ch ->
    (j <= Z.to_nat (ncount n))%nat -> nth j ch 0%N <> 0%N ->
    loc m L d h (nth j ch 0%N) id (nth j kids []) nid n' kids' A B ->
    loc m L (S d) (S h) id p (node_list n kids) nid n' kids'
        (flat_map (piece n kids) (seq 0 j) ++ A) (B ++ rest_from n kids j).

Lemma loc_list : forall m L d H top p T nid n' kids' A B, loc m L d H top p T nid n' kids' A B ->
  T = A ++ node_list n' kids' ++ B.
Proof.
  intros m L d H top p T nid n' kids' A B Hl. induction Hl.
  - cbn [app]. rewrite app_nil_r. reflexivity.
  - rewrite (node_list_at n kids j H1), IHHl. rewrite <- !app_assoc. reflexivity.
Qed.

Lemma loc_depth : forall m L d H top p T nid n' kids' A B, loc m L d H top p T nid n' kids' A B -> (d < H)%nat.
Proof. intros m L d H top p T nid n' kids' A B Hl. induction Hl; lia. Qed.

Lemma loc_node_h : forall m L d H top p T nid n' kids' A B, loc m L d H top p T nid n' kids' A B ->
  exists h' p', pnode m L h' nid p' n' kids' /\ (S h' + d <= H)%nat.
Proof.
  intros m L d H top p T nid n' kids' A B Hl. induction Hl.
  - exists h, p. split; auto. lia.
  - destruct IHHl as [h' [p' [H5 H7]]]. exists h', p'. split; auto. lia.
Qed.

Lemma loc_top : forall m L d H top p T nid n' kids' A B, loc m L d H top p T nid n' kids' A B ->
  exists tn, nm_get m top = Some tn /\ nparent tn = p /\ top <> 0%N.
Proof.
  intros m L d H top p T nid n' kids' A B Hl.
  destruct Hl as [h id p n kids Hn|d h id p n kids ch j nid n' kids' A B Hn _ _ _ _];
    destruct Hn as [H1 [H2 [H3 _]]]; exists n; auto.
Qed.

Definition nil_result (s : bstate) : bstate * bool := (set_current s 0 0, false).

(* a cursor result that lands on slot j of a located node *)
Definition lands (s : bstate) (L : Z) (H : nat) (top p : N) (T : list item) (r : bstate * bool) (y : item) : Prop :=
  exists d id' n' kids' A' B' j,
    r = (set_current s id' (Z.of_nat j), true) /\
    loc (bnodes s) L d H top p T id' n' kids' A' B' /\
    (j < Z.to_nat (ncount n'))%nat /\ nth j (nslots n') zero_item = y.

Lemma getn_of : forall s id n, id <> 0%N -> nm_get (bnodes s) id = Some n -> getn s id = Some n.
Proof. intros s id n H1 H2. unfold getn. destruct (N.eqb id 0) eqn:E; [apply N.eqb_eq in E; congruence|exact H2]. Qed.

Lemma lands_child : forall s L h id p n kids ch j r y,
  pnode (bnodes s) L h id p n kids -> nchildren n = Some ch ->
  (j <= Z.to_nat (ncount n))%nat -> nth j ch 0%N <> 0%N ->
  lands s L h (nth j ch 0%N) id (nth j kids []) r y -> lands s L (S h) id p (node_list n kids) r y.
Proof.
  intros s L h id p n kids ch j r y Hps Hch Hj Hnz [d [id' [n' [kids' [A' [B' [j' [Hr [Hl [Hj' Hy]]]]]]]]]].
  exists (S d), id', n', kids', (flat_map (piece n kids) (seq 0 j) ++ A'), (B' ++ rest_from n kids j), j'.
  repeat split; auto. eapply LocChild; eauto.
Qed.

(* one step of climbing at a node: slot i if it exists, else up to the parent *)
Lemma climb_here : forall s L h id p n kids i f,
  pnode (bnodes s) L h id p n kids -> (i <= Z.to_nat (ncount n))%nat ->
  match rest_from n kids i with
  | y :: _ => lands s L (S h) id p (node_list n kids) (climb_right (S f) L s id (Z.of_nat i)) y
  | [] => climb_right (S f) L s id (Z.of_nat i) =
          if is_root n then nil_result s
          else match getn s p with
               | Some pn => climb_right f L s p (index_of_child L pn id)
               | None => (s, false)
               end
  end.
Proof.
  intros s L h id p n kids i f Hn Hi. pose proof Hn as [Hid [Hget [Hpar [Hcnt [Hlen _]]]]].
  assert (Hg : getn s id = Some n) by (apply getn_of; auto).
  cbn [climb_right]. rewrite Hg.
  destruct (Nat.ltb i (Z.to_nat (ncount n))) eqn:E.
  - apply Nat.ltb_lt in E. rewrite (rest_from_lt n _ i E).
    assert (Hlt : (Z.of_nat i <? ncount n) = true) by lia. rewrite Hlt.
    exists 0%nat, id, n, kids, [], [], i. split; [reflexivity|]. split; [apply LocHere; exact Hn|]. split; [exact E|reflexivity].
  - apply Nat.ltb_ge in E. assert (i = Z.to_nat (ncount n)) by lia. subst i.
    rewrite rest_from_last.
    assert (Hlt : (Z.of_nat (Z.to_nat (ncount n)) <? ncount n) = false) by lia. rewrite Hlt.
    destruct (is_root n) eqn:Er; [reflexivity|]. rewrite Hpar. reflexivity.
Qed.

(* climbing out of a located node: the cursor lands on the head of what follows inside the
   top subtree or, once that is exhausted, goes wherever climbing out of the top node leads *)
Lemma climb_loc : forall s L d H top p T nid n' kids' A B,
  loc (bnodes s) L d H top p T nid n' kids' A B ->
  forall i, (i <= Z.to_nat (ncount n'))%nat -> forall fuel e, (fuel = S d + e)%nat ->
  match rest_from n' kids' i ++ B with
  | y :: _ => lands s L H top p T (climb_right fuel L s nid (Z.of_nat i)) y
  | [] => climb_right fuel L s nid (Z.of_nat i) =
          match getn s top with
          | Some tn => if is_root tn then nil_result s
                       else match getn s p with
                            | Some pn => climb_right e L s p (index_of_child L pn top)
                            | None => (s, false)
                            end
          | None => nil_result s
          end
  end.
Proof.
  intros s L d H top p T nid n' kids' A B Hl.
  induction Hl as [h id p n kids Hn|d h id p n kids ch j nid n' kids' A B Hn Hch Hj Hnz Hloc IH];
    intros i Hi fuel e Hf.
  - pose proof Hn as [Hid [Hget _]].
    assert (Hg : getn s id = Some n) by (apply getn_of; auto).
    rewrite app_nil_r. subst fuel. cbn [plus].
    pose proof (climb_here s L h id p n kids i e Hn Hi) as Hc.
    destruct (rest_from n kids i); [|exact Hc]. rewrite Hc, Hg. reflexivity.
  - pose proof Hn as [Hid [Hget [Hpar [Hcnt [Hlen [Hnone Hsome]]]]]].
    assert (Hg : getn s id = Some n) by (apply getn_of; auto).
    destruct (Hsome ch Hch j Hj) as [[H0 _]|[_ [Hidx Hcs]]]; [congruence|].
    subst fuel. specialize (IH i Hi (S (S d) + e)%nat (S e) ltac:(lia)).
    rewrite app_assoc.
    destruct (rest_from n' kids' i ++ B) as [|y r] eqn:Er.
    + cbn [app]. cbn [plus] in IH |- *. rewrite IH.
      assert (Hgc : exists cn, getn s (nth j ch 0%N) = Some cn /\ nparent cn = id).
      { destruct (pshape_inv _ _ _ _ _ _ Hcs) as [h2 [n2 [k2 [_ [_ [Hid2 [Hget2 [Hpar2 _]]]]]]]].
        exists n2. split; [apply getn_of; auto|exact Hpar2]. }
      destruct Hgc as [cn [Hgcn Hpc]]. rewrite Hgcn.
      assert (Hnr : is_root cn = false).
      { unfold is_root. rewrite Hpc. destruct (N.eqb id 0) eqn:E; [apply N.eqb_eq in E; congruence|reflexivity]. }
      rewrite Hnr, Hg, Hidx.
      pose proof (climb_here s L h id p n kids j e Hn Hj) as Hc.
      destruct (rest_from n kids j); [|exact Hc]. rewrite Hc. reflexivity.
    + cbn [app]. cbn [plus] in IH |- *. eapply lands_child; eauto.
Qed.

(* descending to the first item of a subtree (goRightDown from position 0) *)
Lemma down_first : forall H s L c p T, pshape (bnodes s) L H c p T -> forall fuel, (H <= fuel)%nat ->
  lands s L H c p T (go_right_down fuel L s c 0) (hd zero_item T).
Proof.
  induction H as [|h IH]; intros s L c p T Hps fuel Hf; [inversion Hps|].
  destruct (pshape_inv _ _ _ _ _ _ Hps) as [h0 [n [kids [EH [ET Hn]]]]]. injection EH as EH. subst h0 T.
  pose proof Hn as [Hid [Hget [Hpar [Hcnt [Hlen [Hnone Hsome]]]]]].
  destruct fuel as [|f]; [lia|]. cbn [go_right_down].
  assert (Hg : getn s c = Some n) by (apply getn_of; auto). rewrite Hg.
  assert (Hhd0 : nth 0 kids [] = [] -> hd zero_item (node_list n kids) = nth 0 (nslots n) zero_item).
  { intros Hk. rewrite node_list_head by exact Hcnt. rewrite Hk. reflexivity. }
  assert (Hhere : nth 0 kids [] = [] ->
    lands s L (S h) c p (node_list n kids) (set_current s c 0, true) (hd zero_item (node_list n kids))).
  { intros Hk. rewrite (Hhd0 Hk). exists 0%nat, c, n, kids, [], [], 0%nat.
    split; [reflexivity|]. split; [apply LocHere; exact Hn|]. split; [lia|reflexivity]. }
  destruct (has_children n) eqn:Ehc.
  - destruct (nchildren n) as [ch|] eqn:Ech; [|unfold has_children in Ehc; rewrite Ech in Ehc; discriminate].
    change 0 with (Z.of_nat 0). rewrite (child_id_nat n ch 0 Ech).
    destruct (Hsome ch eq_refl 0%nat ltac:(lia)) as [[H0 Hk]|[Hn0 [Hidx Hcs]]].
    + rewrite H0. cbn [N.eqb]. unfold fuel_of. cbn [climb_right]. rewrite Hg.
      assert (Hlt : (Z.of_nat 0 <? ncount n) = true) by lia. rewrite Hlt. apply Hhere. exact Hk.
    + destruct (N.eqb (nth 0 ch 0%N) 0) eqn:E; [apply N.eqb_eq in E; congruence|].
      pose proof (IH s L _ _ _ Hcs f ltac:(lia)) as Hl.
      assert (Hne : nth 0 kids [] <> []) by (eapply shape_nonempty; eapply pshape_shape; eauto).
      assert (Hhd : hd zero_item (node_list n kids) = hd zero_item (nth 0 kids [])).
      { rewrite node_list_head by exact Hcnt. destruct (nth 0 kids []); [congruence|reflexivity]. }
      rewrite Hhd. assert (H0le : (0 <= Z.to_nat (ncount n))%nat) by lia.
      exact (lands_child s L h c p n kids ch 0%nat _ _ Hn Ech H0le Hn0 Hl).
  - assert (Hk : nth 0 kids [] = []).
    { destruct (nchildren n) as [ch|] eqn:Ech; [|apply Hnone; reflexivity].
      unfold has_children in Ehc. rewrite Ech in Ehc. destruct ch; [|discriminate].
      destruct (Hsome [] eq_refl 0%nat ltac:(lia)) as [[_ Hk0]|[Hn0 _]]; [exact Hk0|cbn in Hn0; congruence]. }
    apply Hhere. exact Hk.
Qed.

(* a landing found inside a located node's own subtree is a landing in the top subtree *)
Lemma lands_lift : forall s L d H top p T mid nm km A B r y,
  loc (bnodes s) L d H top p T mid nm km A B ->
  (forall h pm, (S h <= H)%nat -> pnode (bnodes s) L h mid pm nm km -> lands s L (S h) mid pm (node_list nm km) r y) ->
  lands s L H top p T r y.
Proof.
  intros s L d H top p T mid nm km A B r y Hl. induction Hl; intros Hin.
  - apply Hin; auto.
  - eapply lands_child; eauto.
Qed.

(* moveToNext from slot idx of a located node: lands on the item that follows it in the list *)
Lemma next_loc : forall s L d H root T nid n' kids' A B idx,
  loc (bnodes s) L d H root 0%N T nid n' kids' A B -> (H <= fuel_of s)%nat ->
  bcur_idx s = Z.of_nat idx -> (idx < Z.to_nat (ncount n'))%nat ->
  match nth (S idx) kids' [] ++ rest_from n' kids' (S idx) ++ B with
  | y :: _ => lands s L H root 0%N T (move_to_next L s nid) y
  | [] => move_to_next L s nid = nil_result s
  end.
Proof.
  intros s L d H root T nid n' kids' A B idx Hl Hfuel Hcur Hidx.
  destruct (loc_node_h _ _ _ _ _ _ _ _ _ _ _ _ Hl) as [h' [p' [Hn Hh]]].
  pose proof Hn as [Hid [Hget [Hpar [Hcnt [Hlen [Hnone Hsome]]]]]].
  assert (Hg : getn s nid = Some n') by (apply getn_of; auto).
  destruct (loc_top _ _ _ _ _ _ _ _ _ _ _ _ Hl) as [tn [Htget [Htpar Htid]]].
  assert (Hgt : getn s root = Some tn) by (apply getn_of; auto).
  assert (Hroot : is_root tn = true) by (unfold is_root; rewrite Htpar; reflexivity).
  pose proof (loc_depth _ _ _ _ _ _ _ _ _ _ _ _ Hl) as Hd.
  assert (Hclimb : nth (S idx) kids' [] = [] ->
    match nth (S idx) kids' [] ++ rest_from n' kids' (S idx) ++ B with
    | y :: _ => lands s L H root 0%N T (climb_right (fuel_of s) L s nid (Z.of_nat (S idx))) y
    | [] => climb_right (fuel_of s) L s nid (Z.of_nat (S idx)) = nil_result s
    end).
  { intros Hk. rewrite Hk. cbn [app].
    pose proof (climb_loc s L d H root 0%N T nid n' kids' A B Hl (S idx) ltac:(lia) (fuel_of s) (fuel_of s - S d)%nat ltac:(lia)) as Hc.
    destruct (rest_from n' kids' (S idx) ++ B); [|exact Hc].
    rewrite Hc, Hgt, Hroot. reflexivity. }
  unfold move_to_next. rewrite Hg, Hcur. unfold fuel_of in *.
  replace (Z.of_nat idx + 1) with (Z.of_nat (S idx)) by lia.
  destruct (has_children n') eqn:Ehc.
  - destruct (nchildren n') as [ch|] eqn:Ech; [|unfold has_children in Ehc; rewrite Ech in Ehc; discriminate].
    cbn [go_right_down]. rewrite Hg, Ehc, (child_id_nat n' ch (S idx) Ech).
    destruct (Hsome ch eq_refl (S idx) ltac:(lia)) as [[H0 Hk]|[Hn0 [Hix Hcs]]].
    + rewrite H0. cbn [N.eqb]. apply Hclimb. exact Hk.
    + destruct (N.eqb (nth (S idx) ch 0%N) 0) eqn:E; [apply N.eqb_eq in E; congruence|].
      assert (Hne : nth (S idx) kids' [] <> []) by (eapply shape_nonempty; eapply pshape_shape; eauto).
      destruct (nth (S idx) kids' []) as [|y0 r0] eqn:Ek; [congruence|]. cbn [app].
      apply (lands_lift s L d H root 0%N T nid n' kids' A B _ _ Hl).
      intros h2 pm Hle2 Hn2.
      assert (HSi : (S idx <= Z.to_nat (ncount n'))%nat) by lia.
      apply (lands_child s L h2 nid pm n' kids' ch (S idx) _ _ Hn2 Ech HSi Hn0).
      destruct Hn2 as [_ [_ [_ [_ [_ [_ Hsome2]]]]]].
      destruct (Hsome2 ch Ech (S idx) HSi) as [[H0' _]|[_ [_ Hcs2]]]; [congruence|].
      assert (Hhd : y0 = hd zero_item (nth (S idx) kids' [])) by (rewrite Ek; reflexivity).
      rewrite Hhd. apply (down_first h2 s L _ _ _ Hcs2 (S (length (bnodes s)))). lia.
  - apply Hclimb.
    destruct (nchildren n') as [ch|] eqn:Ech; [|apply Hnone; reflexivity].
    unfold has_children in Ehc. rewrite Ech in Ehc. destruct ch; [|discriminate].
    destruct (Hsome [] eq_refl (S idx) ltac:(lia)) as [[_ Hk0]|[Hn0 _]]; [exact Hk0|].
    destruct idx; cbn in Hn0; congruence.
Qed.

(* ------------------------------------------------------------------ the relation and Next *)
Definition prefix_of (n' : node) (kids' : list (list item)) (A : list item) (idx : nat) : list item :=
  A ++ flat_map (piece n' kids') (seq 0 idx) ++ nth idx kids' [].

Lemma loc_decomp : forall m L d H top p T nid n' kids' A B idx,
  loc m L d H top p T nid n' kids' A B -> (idx < Z.to_nat (ncount n'))%nat ->
  T = prefix_of n' kids' A idx ++ nth idx (nslots n') zero_item ::
      (nth (S idx) kids' [] ++ rest_from n' kids' (S idx) ++ B).
Proof.
  intros m L d H top p T nid n' kids' A B idx Hl Hi.
  rewrite (loc_list _ _ _ _ _ _ _ _ _ _ _ _ Hl), (node_list_at n' kids' idx ltac:(lia)), (rest_from_lt n' kids' idx Hi).
  unfold prefix_of. rewrite <- !app_assoc. cbn [app]. rewrite <- !app_assoc. reflexivity.
Qed.

Lemma split_unique : forall (l : list item) p1 p2 y s1 s2, NoDup (map iid l) ->
  l = p1 ++ y :: s1 -> l = p2 ++ y :: s2 -> p1 = p2.
Proof.
  intros l p1. revert l. induction p1 as [|a p1 IH]; intros l p2 y s1 s2 Hnd H1 H2.
  - destruct p2 as [|b p2]; [reflexivity|]. exfalso. subst l. cbn in H2. inversion H2; subst.
    cbn in Hnd. inversion Hnd as [|? ? Hnin _]; subst. apply Hnin. rewrite map_app. apply in_or_app. right. left. reflexivity.
  - destruct p2 as [|b p2].
    + exfalso. subst l. cbn in H2. inversion H2; subst.
      cbn in Hnd. inversion Hnd as [|? ? Hnin _]; subst. apply Hnin. rewrite map_app. apply in_or_app. right. left. reflexivity.
    + subst l. cbn in H2. inversion H2; subst. f_equal.
      cbn in Hnd. inversion Hnd; subst. eapply IH; eauto.
Qed.

Definition cursor_rel (L : Z) (b : bstate) (s : omap) : Prop :=
  match cur s with
  | CNone => bcur_node b = 0%N
  | CGhost => bcur_node b <> 0%N /\
              (bcur_idx b < 0 \/ match getn b (bcur_node b) with Some n => ncount n <= bcur_idx b | None => True end) /\
              cursor_item b = zero_item
  | CAt i => exists d H nid n' kids' A B idx,
      loc (bnodes b) L d H (broot b) 0%N (b_inorder b) nid n' kids' A B /\ (H <= fuel_of b)%nat /\
      bcur_node b = nid /\ bcur_idx b = Z.of_nat idx /\ (idx < Z.to_nat (ncount n'))%nat /\
      i = length (prefix_of n' kids' A idx)
  end.

Record RelN (L : Z) (b : bstate) (s : omap) : Prop := mkRelN {
  rn_items : items s = b_inorder b;
  rn_count : ocount s = bcount b;
  rn_cached : cached s = bcached b;
  rn_nodup : NoDup (map iid (items s));
  rn_cursor : cursor_rel L b s;
  rn_shape : bcount b <> 0 -> exists H, pshape (bnodes b) L H (broot b) 0%N (b_inorder b) /\ (H <= fuel_of b)%nat
}.

Lemma nth_error_mid : forall (p : list item) x r, nth_error (p ++ x :: r) (length p) = Some x.
Proof. intros. rewrite nth_error_app2 by lia. rewrite Nat.sub_diag. reflexivity. Qed.

(* what the relation says about the observables compared by sim_step *)
Lemma reln_observables : forall L b s, RelN L b s ->
  same_cursor s b = true /\ current_key s = bcurrent_key b.
Proof.
  intros L b s [Hi Hc Hca Hnd Hcur _]. unfold cursor_rel in Hcur.
  unfold same_cursor, current_key, bcurrent_key, cur_item. rewrite <- Hca.
  destruct (cur s) as [|i|] eqn:Ec.
  - rewrite Hcur. cbn [N.eqb]. split; [reflexivity|].
    unfold cursor_item, getn. rewrite Hcur. cbn [N.eqb]. destruct (cached s); reflexivity.
  - destruct Hcur as [d [H [nid [n' [kids' [A [B [idx [Hl [HH [Hn [Hx [Hlt Hpos]]]]]]]]]]]]].
    destruct (loc_node_h _ _ _ _ _ _ _ _ _ _ _ _ Hl) as [h' [p' [[Hid [Hget _]] _]]].
    assert (Hg : getn b nid = Some n') by (apply getn_of; auto).
    pose proof (loc_decomp _ _ _ _ _ _ _ _ _ _ _ _ idx Hl Hlt) as Hd.
    assert (Hnth : nth_error (items s) i = Some (nth idx (nslots n') zero_item)).
    { rewrite Hi, Hd, Hpos. apply nth_error_mid. }
    rewrite Hn. assert (Hne : N.eqb nid 0 = false) by (destruct (N.eqb nid 0) eqn:E; [apply N.eqb_eq in E; congruence|reflexivity]).
    rewrite Hne, Hg, Hnth, Hx, slot_nat. cbn [negb andb]. rewrite item_eqb_refl.
    assert (Hr : ((0 <=? Z.of_nat idx) && (Z.of_nat idx <? ncount n'))%bool = true) by lia. rewrite Hr.
    split; [reflexivity|]. unfold cursor_item. rewrite Hn, Hg, Hx, slot_nat. destruct (cached s); reflexivity.
  - destruct Hcur as [Hne [Hor Hz]].
    assert (Hne' : N.eqb (bcur_node b) 0 = false) by (destruct (N.eqb (bcur_node b) 0) eqn:E; [apply N.eqb_eq in E; congruence|reflexivity]).
    rewrite Hne'. cbn [negb andb]. split.
    + destruct (getn b (bcur_node b)) as [n|]; [|reflexivity]. destruct Hor as [Hor|Hor]; lia.
    + rewrite Hz. destruct (cached s); reflexivity.
Qed.

Lemma b_inorder_cursor : forall b id i c, b_inorder (with_cached (set_current b id i) c) = b_inorder b.
Proof. reflexivity. Qed.

Theorem next_sim : forall cfg b s, RelN (cL cfg) b s ->
  exists b' s', sim_step cfg b s ONext = Some (b', s') /\ RelN (cL cfg) b' s'.
Proof.
  intros cfg b s HR. pose proof (reln_observables _ _ _ HR) as [Hsame Hkey].
  destruct HR as [Hi Hc Hca Hnd Hcur Hshp].
  unfold sim_step. cbn [bstep ostep lift bres]. unfold b_next, move_next.
  (* the calls that change nothing *)
  assert (Hstay : exists b' s', (if agree s (ok_res false) b (ok_res false) then Some (b, s) else None) = Some (b', s') /\ RelN (cL cfg) b' s').
  { exists b, s. split; [rewrite agree_intro; auto|constructor; auto]. }
  destruct (items s) as [|x0 r0] eqn:El.
  { assert (E0 : (bcount b =? 0) = true) by (unfold ocount in Hc; rewrite El in Hc; cbn in Hc; lia).
    rewrite E0. cbn [orb fst snd]. exact Hstay. }
  rewrite <- El in *.
  assert (E0 : (bcount b =? 0) = false) by (unfold ocount in Hc; rewrite El in Hc; cbn in Hc; lia).
  rewrite E0. cbn [orb]. unfold cursor_rel in Hcur.
  destruct (cur s) as [|i|] eqn:Ec.
  - unfold is_selected. rewrite Hcur. cbn [N.eqb negb andb fst snd]. exact Hstay.
  - destruct Hcur as [d [H [nid [n' [kids' [A [B [idx [Hl [HH [Hn [Hx [Hlt Hpos]]]]]]]]]]]]].
    destruct (loc_node_h _ _ _ _ _ _ _ _ _ _ _ _ Hl) as [h' [p' [[Hid [Hget _]] _]]].
    assert (Hg : getn b nid = Some n') by (apply getn_of; auto).
    assert (Hne : N.eqb nid 0 = false) by (destruct (N.eqb nid 0) eqn:E; [apply N.eqb_eq in E; congruence|reflexivity]).
    unfold is_selected. rewrite Hn, Hne, Hx. assert (Hnn : (0 <=? Z.of_nat idx) = true) by lia. rewrite Hnn.
    cbn [negb andb]. rewrite Hg. assert (Hcnt : (ncount n' <=? Z.of_nat idx) = false) by lia. rewrite Hcnt.
    pose proof (loc_decomp _ _ _ _ _ _ _ _ _ _ _ _ idx Hl Hlt) as Hd.
    pose proof (next_loc b (cL cfg) d H (broot b) (b_inorder b) nid n' kids' A B idx Hl HH Hx Hlt) as Hnext.
    set (suffix := nth (S idx) kids' [] ++ rest_from n' kids' (S idx) ++ B) in *.
    assert (Hlen : length (items s) = (S i + length suffix)%nat).
    { rewrite Hi, Hd, app_length. cbn [length]. rewrite <- Hpos. lia. }
    destruct suffix as [|y rs] eqn:Es.
    + (* the cursor was on the last item: the end is reached *)
      rewrite Hnext. unfold nil_result. cbn [fst snd].
      assert (Hlt2 : Nat.ltb (S i) (length (items s)) = false) by (apply Nat.ltb_ge; cbn [length] in Hlen; lia).
      rewrite Hlt2.
      set (b' := load_current (set_current b 0 0)).
      exists b', (set_cur s CNone false). split.
      * rewrite agree_intro; auto.
      * constructor; auto. unfold cursor_rel. reflexivity.
    + (* the cursor lands on the next item *)
      destruct Hnext as [d2 [id2 [n2 [kids2 [A2 [B2 [j [Hr [Hl2 [Hj Hy]]]]]]]]]].
      rewrite Hr. cbn [fst snd].
      assert (Hlt2 : Nat.ltb (S i) (length (items s)) = true) by (apply Nat.ltb_lt; cbn [length] in Hlen; lia).
      rewrite Hlt2.
      destruct (loc_node_h _ _ _ _ _ _ _ _ _ _ _ _ Hl2) as [h2 [p2 [[Hid2 [Hget2 _]] _]]].
      assert (Hne2 : N.eqb id2 0 = false) by (destruct (N.eqb id2 0) eqn:E; [apply N.eqb_eq in E; congruence|reflexivity]).
      set (b' := load_current (set_current b id2 (Z.of_nat j))).
      assert (Hb' : b' = with_cached (set_current b id2 (Z.of_nat j)) true).
      { unfold b', load_current. cbn [bcur_node set_current]. rewrite Hne2. reflexivity. }
      pose proof (loc_decomp _ _ _ _ _ _ _ _ _ _ _ _ j Hl2 Hj) as Hd2. rewrite Hy in Hd2.
      assert (Hpos2 : prefix_of n2 kids2 A2 j = prefix_of n' kids' A idx ++ [nth idx (nslots n') zero_item]).
      { apply (split_unique (b_inorder b) (prefix_of n2 kids2 A2 j) (prefix_of n' kids' A idx ++ [nth idx (nslots n') zero_item]) y
                 (nth (S j) kids2 [] ++ rest_from n2 kids2 (S j) ++ B2) rs); [rewrite <- Hi; exact Hnd|exact Hd2|].
        rewrite <- app_assoc. exact Hd. }
      assert (HR' : RelN (cL cfg) b' (set_cur s (CAt (S i)) true)).
      { constructor.
        - cbn [items set_cur]. rewrite Hb'. exact Hi.
        - unfold ocount. cbn [items set_cur]. fold (ocount s). rewrite Hc, Hb'. reflexivity.
        - rewrite Hb'. reflexivity.
        - exact Hnd.
        - unfold cursor_rel. cbn [cur set_cur]. exists d2, H, id2, n2, kids2, A2, B2, j.
          rewrite Hb'. cbn [bnodes broot bcur_node bcur_idx with_cached set_current]. repeat split; auto.
          rewrite Hpos2, app_length, <- Hpos. cbn [length]. lia.
        - rewrite Hb'. exact Hshp. }
      exists b', (set_cur s (CAt (S i)) true). split; [|exact HR'].
      pose proof (reln_observables _ _ _ HR') as [Hsame' Hkey'].
      rewrite agree_intro; auto; try (rewrite Hb'; reflexivity);
        try (destruct HR' as [_ Hc' _ _ _ _]; exact Hc'); try (destruct HR' as [Hi' _ _ _ _ _]; exact Hi').
  - destruct Hcur as [Hne [Hor Hz]].
    assert (Hne' : N.eqb (bcur_node b) 0 = false) by (destruct (N.eqb (bcur_node b) 0) eqn:E; [apply N.eqb_eq in E; congruence|reflexivity]).
    unfold is_selected. rewrite Hne'. cbn [negb andb].
    destruct (0 <=? bcur_idx b) eqn:E1; cbn [negb orb fst snd]; [|exact Hstay].
    destruct (getn b (bcur_node b)) as [n|]; [|exact Hstay].
    destruct Hor as [Hor|Hor]; [lia|].
    assert (Hge : (ncount n <=? bcur_idx b) = true) by lia. rewrite Hge. exact Hstay.
Qed.

(* ------------------------------------------------------------------ First under the same relation *)
Lemma first_loc : forall H s L c p T, pshape (bnodes s) L H c p T -> forall fuel, (H <= fuel)%nat ->
  exists d n' kids' A' B',
    loc (bnodes s) L d H c p T (move_to_first_loop fuel s c) n' kids' A' B' /\ prefix_of n' kids' A' 0 = [].
Proof.
  induction H as [|h IH]; intros s L c p T Hps fuel Hf; [inversion Hps|].
  destruct (pshape_inv _ _ _ _ _ _ Hps) as [h0 [n [kids [EH [ET Hn]]]]]. injection EH as EH. subst h0 T.
  pose proof Hn as [Hid [Hget [Hpar [Hcnt [Hlen [Hnone Hsome]]]]]].
  destruct fuel as [|f]; [lia|]. cbn [move_to_first_loop].
  assert (Hg : getn s c = Some n) by (apply getn_of; auto). rewrite Hg.
  assert (Hhere : nth 0 kids [] = [] -> exists d n' kids' A' B',
            loc (bnodes s) L d (S h) c p (node_list n kids) c n' kids' A' B' /\ prefix_of n' kids' A' 0 = []).
  { intros Hk. exists 0%nat, n, kids, [], []. split; [apply LocHere; exact Hn|]. unfold prefix_of. cbn. exact Hk. }
  destruct (nchildren n) as [ch|] eqn:Ech.
  - unfold child_id. rewrite Ech. change (zget 0%N ch 0) with (nth 0 ch 0%N).
    destruct (Hsome ch eq_refl 0%nat ltac:(lia)) as [[H0 Hk]|[Hn0 [Hidx Hcs]]].
    + rewrite H0. cbn [N.eqb]. apply Hhere. exact Hk.
    + destruct (N.eqb (nth 0 ch 0%N) 0) eqn:E; [apply N.eqb_eq in E; congruence|].
      assert (Hgc : exists cn, getn s (nth 0 ch 0%N) = Some cn).
      { destruct (pshape_inv _ _ _ _ _ _ Hcs) as [h2 [n2 [k2 [_ [_ [Hid2 [Hget2 _]]]]]]]. exists n2. apply getn_of; auto. }
      destruct Hgc as [cn Hgcn]. rewrite Hgcn.
      destruct (IH s L _ _ _ Hcs f ltac:(lia)) as [d [n' [kids' [A' [B' [Hl Hp]]]]]].
      exists (S d), n', kids', (flat_map (piece n kids) (seq 0 0) ++ A'), (B' ++ rest_from n kids 0).
      split; [eapply LocChild; eauto; lia|]. cbn [seq flat_map app]. exact Hp.
  - apply Hhere. apply Hnone. reflexivity.
Qed.

Theorem first_simN : forall cfg b s, RelN (cL cfg) b s ->
  exists b' s', sim_step cfg b s OFirst = Some (b', s') /\ RelN (cL cfg) b' s'.
Proof.
  intros cfg b s HR. pose proof (reln_observables _ _ _ HR) as [Hsame Hkey].
  destruct HR as [Hi Hc Hca Hnd Hcur Hshp].
  unfold sim_step. cbn [bstep ostep bres]. unfold b_first.
  destruct (items s) as [|x0 r0] eqn:El.
  { assert (E0 : (bcount b =? 0) = true) by (unfold ocount in Hc; rewrite El in Hc; cbn in Hc; lia).
    rewrite E0. cbn [fst snd]. exists b, s. split; [rewrite agree_intro; auto; rewrite El; auto|constructor; auto; rewrite El; auto]. }
  assert (E0 : (bcount b =? 0) = false) by (unfold ocount in Hc; rewrite El in Hc; cbn in Hc; lia).
  rewrite E0. rewrite <- El in *.
  destruct (Hshp ltac:(lia)) as [H [Hps HH]].
  destruct (first_loc H b (cL cfg) (broot b) 0%N (b_inorder b) Hps (fuel_of b) HH) as [d [n' [kids' [A' [B' [Hl Hp]]]]]].
  unfold move_to_first. cbn [fst snd].
  set (id' := move_to_first_loop (fuel_of b) b (broot b)) in *.
  destruct (loc_node_h _ _ _ _ _ _ _ _ _ _ _ _ Hl) as [h2 [p2 [[Hid2 [Hget2 [_ [Hcnt2 _]]]] _]]].
  assert (Hne2 : N.eqb id' 0 = false) by (destruct (N.eqb id' 0) eqn:E; [apply N.eqb_eq in E; congruence|reflexivity]).
  set (b' := load_current (set_current b id' 0)).
  assert (Hb' : b' = with_cached (set_current b id' (Z.of_nat 0)) true).
  { unfold b', load_current. cbn [bcur_node set_current]. rewrite Hne2. reflexivity. }
  assert (HR' : RelN (cL cfg) b' (set_cur s (CAt 0) true)).
  { constructor.
    - cbn [items set_cur]. rewrite Hb'. exact Hi.
    - unfold ocount. cbn [items set_cur]. fold (ocount s). rewrite Hc, Hb'. reflexivity.
    - rewrite Hb'. reflexivity.
    - exact Hnd.
    - unfold cursor_rel. cbn [cur set_cur]. exists d, H, id', n', kids', A', B', 0%nat.
      rewrite Hb'. cbn [bnodes broot bcur_node bcur_idx with_cached set_current]. repeat split; auto; [lia|].
      rewrite Hp. reflexivity.
    - rewrite Hb'. exact Hshp. }
  exists b', (set_cur s (CAt 0) true). split; [|exact HR'].
  pose proof (reln_observables _ _ _ HR') as [Hsame' Hkey'].
  destruct (items s) as [|x1 r1] eqn:E2 in |- *; [congruence|].
  rewrite agree_intro; auto; try (rewrite Hb'; reflexivity);
    try (destruct HR' as [_ Hc' _ _ _ _]; exact Hc'); try (destruct HR' as [Hi' _ _ _ _ _]; exact Hi').
Qed.

(* forward scans: every sequence of First / Next calls simulates from every related pair *)
Definition is_scan_op (o : op) : Prop := o = OFirst \/ o = ONext.

Theorem scan_refines : forall cfg b s ops, RelN (cL cfg) b s -> Forall is_scan_op ops -> sim_from cfg b s ops = true.
Proof.
  intros cfg b s ops HR Hall.
  apply (sim_lift cfg (RelN (cL cfg)) is_scan_op); auto.
  intros b0 s0 o HR0 [->| ->]; [apply first_simN|apply next_sim]; exact HR0.
Qed.

(* non-vacuity: the reachable three-node state (root split) is related, and a complete forward
   scan (First, then Next until it reports the end, and once more) simulates there *)
Example scan_state :
  let cfg := mkCfg 2 false false in
  let b := fst (brun cfg empty_bstate [OAdd 1 1; OAdd 2 2; OAdd 3 3]) in
  exists s, RelN 2 b s /\ sim_from cfg b s [OFirst; ONext; ONext; ONext; ONext] = true.
Proof.
  cbv zeta.
  set (b := fst (brun (mkCfg 2 false false) empty_bstate [OAdd 1 1; OAdd 2 2; OAdd 3 3])).
  set (s := mkOMap [mkItem 1 1 1; mkItem 2 2 2; mkItem 3 3 3] CNone false 4%N).
  assert (Hb : bnodes b =
      [(1%N, mkNode 0 [mkItem 2 2 2; zero_item] 1 (Some [3%N; 2%N; 0%N]));
       (3%N, mkNode 1 [mkItem 1 1 1; zero_item] 1 None);
       (2%N, mkNode 1 [mkItem 3 3 3; zero_item] 1 None)]) by (vm_compute; reflexivity).
  assert (Hr : broot b = 1%N) by (vm_compute; reflexivity).
  assert (Hi : b_inorder b = [mkItem 1 1 1; mkItem 2 2 2; mkItem 3 3 3]) by (vm_compute; reflexivity).
  assert (HR : RelN 2 b s).
  { constructor; try (vm_compute; reflexivity).
    - cbn. repeat constructor; cbn; intuition discriminate.
    - intros _. exists 2%nat. split; [|vm_compute; lia]. rewrite Hb, Hr, Hi.
      change [mkItem 1 1 1; mkItem 2 2 2; mkItem 3 3 3] with
        (node_list (mkNode 0 [mkItem 2 2 2; zero_item] 1 (Some [3%N; 2%N; 0%N])) [[mkItem 1 1 1]; [mkItem 3 3 3]]).
      apply PShape; try (cbn; congruence || lia || reflexivity).
      intros ch Hch i Hi'. inversion Hch; subst ch. cbn in Hi'.
      destruct i as [|[|i]]; [| |lia]; right; (split; [cbn; discriminate|]); (split; [vm_compute; reflexivity|]); cbn [nth].
      + change [mkItem 1 1 1] with (node_list (mkNode 1 [mkItem 1 1 1; zero_item] 1 None) []).
        apply PShape; try (cbn; congruence || lia || reflexivity).
        intros _ j. destruct j; reflexivity.
      + change [mkItem 3 3 3] with (node_list (mkNode 1 [mkItem 3 3 3; zero_item] 1 None) []).
        apply PShape; try (cbn; congruence || lia || reflexivity).
        intros _ j. destruct j; reflexivity. }
  exists s. split; [exact HR|].
  apply (scan_refines (mkCfg 2 false false)); [exact HR|]. unfold is_scan_op. repeat (constructor; [tauto|]). constructor.
Qed.

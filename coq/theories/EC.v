(* EC — model of the erasure-coded blob store (C25, C26).

   Transcribes, function by function, /repo/fs/blobstore.withec.go (GetOne, Add, the repair loop)
   and /repo/fs/erasure/decoder.go (Decode, detectBadShardsThenReconstruct) AS REPAIRED by
   /verif/fixes/C25-ec-damaged-shards.patch.  The code before the patch is transcribed next to it
   (getOne_orig …) for the refutation witnesses of suspect S6.

   Abstraction. Shard contents are symbols, not bytes: the content a shard file of position i holds
   is DGood (exactly what Encode produced for that position), DBad (other bytes of the same length)
   or DTrunc m (a proper prefix of m bytes).  A shard file on disk is Missing or a file of some
   total length with the 17 metadata bytes (1 pad count + 16 md5) and the content.  The Reed–Solomon
   library and md5 are NOT modelled here: every definition takes them as parameters (rs_verify,
   rs_reconstruct, md5); the theorems assume the contract `rs_contract` and `md5_detects`; Corr/C25.v
   instantiates them with a concrete symbolic implementation that the harness validates against
   klauspost/reedsolomon on the same enumeration.

   Only definitions here (no lemmas). *)
From Coq Require Import List NArith Bool Arith.
Import ListNotations.

(* ------------------------------------------------------------------ outcomes *)
Inductive ecerr :=
| EAllMissing      (* GetOne: isShardsEmpty *)
| EEmptyShards     (* Decode: len(shards) == 0 *)
| EChecksumsPass   (* detectBad…: "shards passed checksum check, should be good" *)
| EReconstruct     (* Reconstruct / ReconstructSome returned an error *)
| EVerify          (* Verify false after reconstruction *)
| EJoin            (* encoder.Join failed *)
| ENoMeta          (* no usable metadata entry *)
| EPad             (* stuffed-zeroes count out of range *)
| EShortData       (* Encode: Split of an empty blob *)
| EWrite.          (* Add: more than p shard writes failed *)

Inductive res (A : Type) := Ok (a : A) | Err (e : ecerr) | Panic.
Arguments Ok {A} a. Arguments Err {A} e. Arguments Panic {A}.

Definition bind {A B} (r : res A) (f : A -> res B) : res B :=
  match r with Ok a => f a | Err e => Err e | Panic => Panic end.

Fixpoint mapM {A B} (f : A -> res B) (l : list A) : res (list B) :=
  match l with
  | [] => Ok []
  | x :: r => bind (f x) (fun y => bind (mapM f r) (fun ys => Ok (y :: ys)))
  end.

(* Go primitives that can panic *)
Definition go_slice (len k : N) : res unit :=          (* b[k:] / b[0:k] of a slice read from a file of len bytes *)
  if (len <? k)%N then Panic else Ok tt.
Definition go_index {A} (l : list A) (i : nat) : res A :=
  match nth_error l i with Some x => Ok x | None => Panic end.
Definition go_make (len : N) (sub : N) : res N :=      (* make([]byte, len - sub) *)
  if (len <? sub)%N then Panic else Ok (len - sub)%N.

(* ------------------------------------------------------------------ data *)
Inductive sdata := DGood | DBad | DTrunc (m : N).
Definition sdata_eqb (a b : sdata) : bool :=
  match a, b with
  | DGood, DGood | DBad, DBad => true
  | DTrunc x, DTrunc y => N.eqb x y
  | _, _ => false
  end.
Definition is_dgood (a : sdata) : bool := match a with DGood => true | _ => false end.

Definition MetaDataSize : N := 17.

Inductive dshard :=
| SMissing
| SFile (len : N) (pad : N) (sum : N) (data : sdata).   (* len = total file length; pad/sum/data are what the
                                                           first 17 bytes and the rest hold when len > 17 *)

Definition meta := (N * N)%type.                         (* pad count, md5 *)

(* blob geometry *)
Definition perShard (d : nat) (size : N) : N := ((size + N.of_nat d - 1) / N.of_nat d)%N.
Definition truepad (d : nat) (size : N) : N :=
  if (size mod N.of_nat d =? 0)%N then 0%N else (N.of_nat d - size mod N.of_nat d)%N.
Definition dlen (L : N) (x : sdata) : N := match x with DGood | DBad => L | DTrunc m => m end.

(* what the Reed–Solomon contract is stated over *)
Definition count_present (ss : list (option sdata)) : nat :=
  length (filter (fun o => match o with Some _ => true | None => false end) ss).
Definition good_opt (o : option sdata) : bool := match o with Some DGood => true | _ => false end.
Definition count_notgood (ss : list (option sdata)) : nat := length (filter (fun o => negb (good_opt o)) ss).
Definition all_good (n : nat) (ss : list (option sdata)) : Prop := ss = repeat (Some DGood) n.

Record rs_contract (d p : nat)
       (rs_verify : list (option sdata) -> bool)
       (rs_reconstruct : list (option sdata) -> option (list (option sdata))) : Prop := {
  (* Verify accepts a complete set of genuine shards *)
  rs_V1 : rs_verify (repeat (Some DGood) (d + p)) = true;
  (* minimum distance p+1: a set with between 1 and p missing/altered shards never verifies *)
  rs_V2 : forall ss, length ss = d + p -> count_notgood ss <= p -> rs_verify ss = true -> all_good (d + p) ss;
  (* Reconstruct works in place: the slice keeps its length *)
  rs_R0 : forall ss r, rs_reconstruct ss = Some r -> length r = length ss;
  (* Reconstruct needs d shards *)
  rs_R1 : forall ss, length ss = d + p -> count_present ss < d -> rs_reconstruct ss = None;
  (* Reconstruct from >= d genuine shards rebuilds every missing shard exactly *)
  rs_R2 : forall ss, length ss = d + p -> d <= count_present ss ->
          (forall x, In (Some x) ss -> x = DGood) -> rs_reconstruct ss = Some (repeat (Some DGood) (d + p))
}.
(* the idealisation of DESIGN.md ("verify true <-> all present, equal length, all Good"); FALSE of the real
   library for correlated damage of more than p shards (see C25_excess_refuted) *)
Definition rs_verify_exact (d p : nat) (rs_verify : list (option sdata) -> bool) : Prop :=
  forall ss, rs_verify ss = true -> all_good (d + p) ss.

(* ------------------------------------------------------------------ the code *)
Section Code.
  Variables d p : nat.
  Variable size : N.
  Variable md5 : sdata -> N.
  Variable rs_verify : list (option sdata) -> bool.
  Variable rs_reconstruct : list (option sdata) -> option (list (option sdata)).

  Definition L : N := perShard d size.
  Definition good_file : dshard := SFile (MetaDataSize + L) (truepad d size) (md5 DGood) DGood.

  (* positions of nil entries *)
  Fixpoint nil_positions (i : nat) (ss : list (option sdata)) : list nat :=
    match ss with
    | [] => []
    | None :: r => i :: nil_positions (S i) r
    | Some _ :: r => nil_positions (S i) r
    end.

  (* reedsolomon.Join over the first d shards, then the size the code asks for: len(shards[0]) * d *)
  Fixpoint join (k : nat) (ss : list (option sdata)) : option (list sdata) :=
    match k with
    | O => Some []
    | S k' => match ss with
              | Some x :: r => option_map (cons x) (join k' r)
              | _ => None
              end
    end.

  (* ---------------- fs/erasure/decoder.go, repaired *)

  (* loop of detectBadShardsThenReconstruct: a shard that is nil/empty, has no complete metadata, or whose
     md5 differs from the stored one is set to nil and its index recorded *)
  Definition keep_shard (sm : option sdata * option meta) : option sdata :=
    match sm with
    | (Some x, Some (_, sum)) => if (dlen L x =? 0)%N then None else if (md5 x =? sum)%N then Some x else None
    | _ => None
    end.

  Definition detectBadShardsThenReconstruct (shards : list (option sdata)) (metas : list (option meta))
    : res (list (option sdata) * list nat) :=
    let kept := map keep_shard (combine shards metas) in
    let bad := nil_positions 0 kept in
    match bad with
    | [] => Err EChecksumsPass
    | _ => match rs_reconstruct kept with
           | None => Err EReconstruct
           | Some rebuilt => if rs_verify rebuilt then Ok (rebuilt, bad) else Err EVerify
           end
    end.

  Fixpoint first_meta (metas : list (option meta)) : option meta :=
    match metas with
    | [] => None
    | Some m :: _ => Some m
    | None :: r => first_meta r
    end.

  (* Decode: result = (joined data shards, pad count used for stripping, ReconstructedShardsIndeces) *)
  Definition decode (shards : list (option sdata)) (metas : list (option meta))
    : res (list sdata * N * list nat) :=
    match shards with
    | [] => Err EEmptyShards
    | _ =>
      bind (if rs_verify shards then Ok (shards, []) else detectBadShardsThenReconstruct shards metas)
      (fun '(sh, idx) =>
      bind (go_index sh 0) (fun s0 =>                               (* len(shards[0]) *)
      match join d sh with
      | None => Err EJoin
      | Some joined =>
        let blen := (match s0 with Some x => dlen L x | None => 0 end * N.of_nat d)%N in
        match first_meta metas with
        | None => Err ENoMeta
        | Some (pad, _) =>
          if (N.of_nat d <=? pad)%N || (blen <? pad)%N then Err EPad
          else bind (go_make blen pad) (fun _ => Ok (joined, pad, idx))
        end
      end))
    end.

  (* ---------------- fs/blobstore.withec.go, repaired *)

  (* one reader goroutine of GetOne; Panic here kills the process *)
  Definition read_shard (s : dshard) : res (option (meta * sdata)) :=
    match s with
    | SMissing => Ok None
    | SFile len pad sum data =>
        if (len <=? MetaDataSize)%N then Ok None                     (* the added length check *)
        else bind (go_slice len MetaDataSize) (fun _ => Ok (Some ((pad, sum), data)))
    end.

  Definition all_nil {A} (l : list (option A)) : bool :=
    forallb (fun o => match o with None => true | Some _ => false end) l.

  (* the file a repair / Add writes for one shard, given what was decoded *)
  Definition fresh_file (decoded_ok : bool) : dshard :=
    if decoded_ok then good_file else SFile (MetaDataSize + L) (truepad d size) (md5 DBad) DBad.

  Fixpoint write_at (i : nat) (f : dshard) (disk : list dshard) : list dshard :=
    match disk, i with
    | [], _ => []
    | _ :: r, O => f :: r
    | x :: r, S i' => x :: write_at i' f r
    end.

  Definition is_original (joined : list sdata) (pad : N) : bool :=
    forallb is_dgood joined && Nat.eqb (length joined) d && N.eqb pad (truepad d size).

  (* repair loop: wfail i = the repair write of shard i fails (only logged) *)
  Fixpoint repair (idx : list nat) (wfail : nat -> bool) (f : dshard) (disk : list dshard) : list dshard :=
    match idx with
    | [] => disk
    | i :: r => repair r wfail f (if wfail i then disk else write_at i f disk)
    end.

  Definition getOne (repairOn : bool) (wfail : nat -> bool) (disk : list dshard)
    : res (list sdata * N) * list dshard :=
    match mapM read_shard disk with
    | Panic => (Panic, disk)
    | Err e => (Err e, disk)
    | Ok rd =>
      let shards := map (option_map snd) rd in
      let metas := map (option_map fst) rd in
      if all_nil shards then (Err EAllMissing, disk)
      else match decode shards metas with
           | Panic => (Panic, disk)
           | Err e => (Err e, disk)
           | Ok (joined, pad, idx) =>
               (Ok (joined, pad),
                if repairOn then repair idx wfail (fresh_file (is_original joined pad)) disk else disk)
           end
    end.

  (* Add of one blob to one table: wfail i = MkdirAll/WriteFile of shard i fails *)
  Fixpoint write_all (i : nat) (wfail : nat -> bool) (disk : list dshard) : list dshard :=
    match disk with
    | [] => []
    | x :: r => (if wfail i then x else good_file) :: write_all (S i) wfail r
    end.
  Definition count_fail (n : nat) (wfail : nat -> bool) : nat := length (filter wfail (seq 0 n)).

  Definition add (wfail : nat -> bool) (disk : list dshard) : res unit * list dshard :=
    if (size =? 0)%N then (Err EShortData, disk)                      (* Split: ErrShortData, nothing written *)
    else (if p <? count_fail (length disk) wfail then Err EWrite else Ok tt, write_all 0 wfail disk).

  (* ---------------- the code BEFORE the patch (refutation witnesses only) *)

  Definition read_shard_orig (s : dshard) : res (option (meta * sdata)) :=
    match s with
    | SMissing => Ok None
    | SFile len pad sum data => bind (go_slice len MetaDataSize) (fun _ => Ok (Some ((pad, sum), data)))
    end.

  (* original detectBad…: shardsMetaData[i][1:] for every i *)
  Fixpoint detect_orig (sms : list (option sdata * option meta)) : res (list (option sdata)) :=
    match sms with
    | [] => Ok []
    | (s, m) :: r =>
        match m with
        | None => Panic                                               (* nil[1:] *)
        | Some (_, sum) =>
            bind (detect_orig r) (fun r' =>
            Ok ((match s with Some x => if (md5 x =? sum)%N then Some x else None | None => None end) :: r'))
        end
    end.

  Definition decode_orig (rs_reconstructSome : list (option sdata) -> option (list (option sdata)))
             (shards : list (option sdata)) (metas : list (option meta)) : res (list sdata * N * list nat) :=
    match shards with
    | [] => Err EEmptyShards
    | _ =>
      bind (if rs_verify shards then Ok (shards, [])
            else match rs_reconstructSome shards with
                 | None => Err EReconstruct
                 | Some sh1 =>
                     if rs_verify sh1 then Ok (sh1, nil_positions 0 shards)
                     else bind (detect_orig (combine sh1 metas)) (fun kept =>
                          match nil_positions 0 kept with
                          | [] => Err EChecksumsPass
                          | bad => match rs_reconstruct kept with
                                   | None => Err EReconstruct
                                   | Some rebuilt => if rs_verify rebuilt then Ok (rebuilt, bad) else Err EVerify
                                   end
                          end)
                 end)
      (fun '(sh, idx) =>
      bind (go_index sh 0) (fun s0 =>
      match join d sh with
      | None => Err EJoin
      | Some joined =>
        let blen := (match s0 with Some x => dlen L x | None => 0 end * N.of_nat d)%N in
        match first_meta metas with
        | None => Panic                                               (* the mi2 loop runs off the end *)
        | Some (pad, _) => bind (go_make blen pad) (fun _ => Ok (joined, pad, idx))
        end
      end))
    end.

  Definition getOne_orig (rs_reconstructSome : list (option sdata) -> option (list (option sdata)))
             (disk : list dshard) : res (list sdata * N) :=
    bind (mapM read_shard_orig disk) (fun rd =>
      let shards := map (option_map snd) rd in
      let metas := map (option_map fst) rd in
      if all_nil shards then Err EAllMissing
      else bind (decode_orig rs_reconstructSome shards metas) (fun '(joined, pad, _) => Ok (joined, pad))).
End Code.

(* ------------------------------------------------------------------ damage, counting *)
Definition readable (s : dshard) : bool :=
  match s with SFile len _ _ _ => (MetaDataSize <? len)%N | SMissing => false end.

(* a shard file is intact: readable, genuine content, genuine checksum and pad count *)
Definition intact (d : nat) (size : N) (md5 : sdata -> N) (s : dshard) : bool :=
  match s with
  | SFile len pad sum data => (MetaDataSize <? len)%N && N.eqb pad (truepad d size) && N.eqb sum (md5 DGood) && is_dgood data
  | SMissing => false
  end.
Definition damaged d size md5 (disk : list dshard) : nat := length (filter (fun s => negb (intact d size md5 s)) disk).

(* the shard's content is lost: missing, too short to hold content, or content altered *)
Definition data_damaged (s : dshard) : bool :=
  match s with
  | SFile len _ _ data => (len <=? MetaDataSize)%N || negb (is_dgood data)
  | SMissing => true
  end.
Definition data_damaged_count (disk : list dshard) : nat := length (filter data_damaged disk).

(* md5 tells genuine content from anything else found on this disk *)
Definition md5_detects (md5 : sdata -> N) (disk : list dshard) : Prop :=
  forall len pad sum data, In (SFile len pad sum data) disk -> (MetaDataSize < len)%N -> sum = md5 data -> data = DGood.

(* the pad count the decoder will use: that of the first readable shard *)
Fixpoint first_readable_pad (disk : list dshard) : option N :=
  match disk with
  | [] => None
  | s :: r => if readable s then match s with SFile _ pad _ _ => Some pad | SMissing => None end else first_readable_pad r
  end.
Definition first_pad_intact (d : nat) (size : N) (disk : list dshard) : Prop :=
  forall v, first_readable_pad disk = Some v -> v = truepad d size.

Definition original (d : nat) (size : N) : list sdata * N := (repeat DGood d, truepad d size).
Definition never : nat -> bool := fun _ => false.

(* number of positions where two disks differ *)
Fixpoint diff_count (eqb : dshard -> dshard -> bool) (a b : list dshard) : nat :=
  match a, b with
  | x :: r, y :: s => (if eqb x y then 0 else 1) + diff_count eqb r s
  | _, _ => 0
  end.
Definition dshard_eqb (a b : dshard) : bool :=
  match a, b with
  | SMissing, SMissing => true
  | SFile l1 p1 s1 d1, SFile l2 p2 s2 d2 => N.eqb l1 l2 && N.eqb p1 p2 && N.eqb s1 s2 && sdata_eqb d1 d2
  | _, _ => false
  end.

(* ------------------------------------------------------------------ byte level: Split / Join / strip *)
(* reedsolomon.Split pads the blob with zeroes to d * perShard bytes and cuts it into d data shards;
   Decode joins the d data shards and drops `pad` trailing bytes. *)
Fixpoint chunks (k : nat) (m : nat) (bs : list N) : list (list N) :=
  match k with
  | O => []
  | S k' => firstn m bs :: chunks k' m (skipn m bs)
  end.
Definition split_bytes (d : nat) (data : list N) : list (list N) :=
  let m := N.to_nat (perShard d (N.of_nat (length data))) in
  chunks d m (data ++ repeat 0%N (d * m - length data)).
Definition strip_bytes (joined : list N) (pad : N) : list N := firstn (length joined - N.to_nat pad) joined.

(* ------------------------------------------------------------------ a concrete symbolic Reed–Solomon
   Used by the correspondence check (validated there against klauspost/reedsolomon case by case) and as the
   witness that rs_contract is satisfiable. A nil or zero-length shard is "missing" for the library. *)
Definition c_md5 (x : sdata) : N := match x with DGood => 0 | DBad => 2 | DTrunc m => 2 * m + 4 end%N.
Definition junk_sum : N := 1.

Definition present (Lc : N) (o : option sdata) : bool :=
  match o with Some x => negb (dlen Lc x =? 0)%N | None => false end.
Definition olen (Lc : N) (o : option sdata) : N := match o with Some x => dlen Lc x | None => 0%N end.
Definition is_trunc (o : option sdata) : bool := match o with Some (DTrunc _) => true | _ => false end.

Definition same_len (Lc : N) (ss : list (option sdata)) : bool :=
  match filter (present Lc) ss with
  | [] => true
  | o :: r => forallb (fun o' => N.eqb (olen Lc o') (olen Lc o)) r
  end.

Definition c_verify (n : nat) (Lc : N) (ss : list (option sdata)) : bool :=
  Nat.eqb (length ss) n && forallb (present Lc) ss && same_len Lc ss
  && (forallb good_opt ss || forallb is_trunc ss).

Definition fill_value (Lc : N) (src : list (option sdata)) : sdata :=
  if forallb good_opt src then DGood
  else if forallb is_trunc src then match src with Some x :: _ => x | _ => DBad end
  else DBad.

Definition c_reconstruct (d n : nat) (Lc : N) (ss : list (option sdata)) : option (list (option sdata)) :=
  if negb (Nat.eqb (length ss) n) then None
  else let pres := filter (present Lc) ss in
       match pres with
       | [] => None                                         (* ErrShardNoData *)
       | _ => if negb (same_len Lc ss) then None            (* ErrShardSize *)
              else if Nat.eqb (length pres) n then Some ss
              else if Nat.ltb (length pres) d then None     (* ErrTooFewShards *)
              else let v := fill_value Lc (firstn d pres) in
                   Some (map (fun o => if present Lc o then o else Some v) ss)
       end.

(* ReconstructSome(shards, required = the nil entries) of the code before the patch *)
Definition c_reconstructSome (d n : nat) (Lc : N) (ss : list (option sdata)) : option (list (option sdata)) :=
  if negb (Nat.eqb (length ss) n) then None
  else let pres := filter (present Lc) ss in
       match pres with
       | [] => None
       | _ => if negb (same_len Lc ss) then None
              else if forallb (fun o => match o with None => false | Some _ => true end) ss then Some ss
              else if Nat.ltb (length pres) d then None
              else let v := fill_value Lc (firstn d pres) in
                   Some (map (fun o => match o with None => Some v | _ => o end) ss)
       end.

(* damage kinds of the enumeration, applied to whatever file is there *)
Inductive kdmg := KGood | KMissing | KTrunc (n : N) | KFlipData | KFlipSum | KFlipPad (v : N).
Definition apply_dmg (k : kdmg) (s : dshard) : dshard :=
  match k, s with
  | KGood, _ => s
  | KMissing, _ => SMissing
  | _, SMissing => SMissing
  | KTrunc nn, SFile len pad sum data =>
      if (nn <? len)%N then SFile nn pad sum (if (nn <=? MetaDataSize)%N then data else DTrunc (nn - MetaDataSize)) else s
  | KFlipData, SFile len pad sum data => SFile len pad sum (match data with DGood => DBad | x => x end)
  | KFlipSum, SFile len pad _ data => SFile len pad junk_sum data
  | KFlipPad v, SFile len _ sum data => SFile len v sum data
  end.
Fixpoint apply_dmgs (ks : list kdmg) (disk : list dshard) : list dshard :=
  match ks, disk with
  | k :: kr, s :: r => apply_dmg k s :: apply_dmgs kr r
  | _, _ => disk
  end.

Definition c_getOne (d p : nat) (size : N) (repairOn : bool) (disk : list dshard) :=
  getOne d size c_md5 (c_verify (d + p) (perShard d size)) (c_reconstruct d (d + p) (perShard d size)) repairOn never disk.

(* outcome class: 0 ok-equal, 1 ok-different, 2 error, 3 panic *)
Definition class_of (d : nat) (size : N) (r : res (list sdata * N)) : N :=
  match r with
  | Ok (j, pad) => if is_original d size j pad then 0 else 1
  | Err _ => 2
  | Panic => 3
  end%N.
Definition nth_flag (l : list bool) : nat -> bool := fun i => nth i l false.

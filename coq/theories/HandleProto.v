(* HandleProto — interleaving semantics of the node-version protocol of the commit, for any number of
   transactions and nodes (property C37).

   One atomic step = one storage-interface effect of one transaction (or of the environment: crash, lock
   expiry, ageing of a work-in-progress timestamp past one hour, priority rollback of another transaction's
   priority log).  Transcribed from
     common/twophasecommittransaction.go   phase1Commit (l2Cache.Lock on the sorted node keys, commitUpdatedNodes,
                                           commitRemovedNodes, PriorityLog().Add, nodesKeysNilOrLocked + DualLock),
                                           phase2Commit (registry.UpdateNoLocks(true), PriorityLog().Remove, unlockNodesKeys,
                                           cleanup), Phase2Commit error path (logger.priorityRollback, rollback)
     common/twophasecommittransaction2.go  rollback (which undo runs for which committedState), deleteObsoleteEntries
     common/noderepository.backend.go      commitUpdatedNodes, commitRemovedNodes, rollbackUpdatedNodes, rollbackRemovedNodes,
                                           activateInactiveNodes, touchNodes
     common/transactionlogger.go           doPriorityRollbacks + acquireLocks (version precondition, failover branch)
     handle.go                             through Proto.handle / claim / flip / touch / clear_inactive / expired
   The handle operations, claims, marks, undelete, rb_updated_* are REUSED from Proto.v.

   Abstractions: the B-tree hands every commit attempt its node sets (t_upd: logical id, version read, the
   physical id AllocateID will produce; t_rem: logical id, version read); a refetch-and-retry is a new
   transaction of the model; added / new-root nodes, item locks, store counts and the transaction log are left
   out (they do not touch the handles of existing nodes); one registry.Get is atomic, every batched registry
   write is one step PER HANDLE (so a crash can tear any batch); blobStore.Add of the staged nodes is one step.
   Time: wip = 2 is a current timestamp, LAge turns it into 1 (= older than one hour, Proto.expired).

   hyps selects the environment assumptions:
     h_lock  (LockHeldUntilUnlock): a node lock disappears before its owner unlocks only if the owner has crashed,
             a lock is taken over by a priority rollback only from a crashed owner, and a timestamp written under a
             lock does not age past the hour while its live writer still holds that lock (lock TTL = maxTime <= 1 h).
     h_recov (RecoveryWithinTheHour): no timestamp of a handle ages past the hour while some priority log still
             lists that handle.
     h_mark  (MarkRespectsClaim): no transaction marks a node deleted whose inactive id is set and unexpired
             (commitRemovedNodes does not look at the inactive id; this hypothesis excludes exactly that pattern).
   Definitions only; proofs are in HandleProtoProofs.v. *)
From Coq Require Import List ZArith NArith Bool.
From SopVerif Require Import Proto.
Import ListNotations.
Local Open Scope N_scope.

Record hyps := mkHy { h_lock : bool; h_recov : bool; h_mark : bool }.
Definition strict : hyps := mkHy true true true.
Definition no_lock_hyp : hyps := mkHy false true true.
Definition no_recov_hyp : hyps := mkHy true false true.
Definition no_mark_hyp : hyps := mkHy true true false.
Definition free : hyps := mkHy false false false.

Inductive wkind := WClaim | WMark | WFlip | WTouch | WUndo | WRestore.

Inductive pcT :=
| PStart | PLocked | PClaiming | PStaged | PMarking | PLogged | PFlipping | PInstalled | PUnlocked | PCleaned | PDone
| PRestoring | PRolling | PAborted.

Record txn := mkTx {
  t_upd : list (N * Z * N);          (* updated nodes: logical id, version read, physical id to allocate *)
  t_rem : list (N * Z);              (* removed nodes: logical id, version read *)
  t_pc : pcT;
  t_crashed : bool;
  t_pend : list (wkind * handle);    (* the rest of the registry batch being written, one handle per step *)
  t_claimed : list handle;           (* in-memory images after the claim (updatedNodesHandles) *)
  t_marked : list handle;            (* in-memory images after the deletion mark (removedNodesHandles) *)
  t_plog : option (list handle)      (* this transaction's priority log file *)
}.

Inductive event :=
| EInstall (i : nat) (l : N) (v : Z) (p : N)   (* phase-2 write of the flipped handle: i read version v of l and installs p *)
| ERemove (i : nat) (l : N) (v : Z)            (* phase-2 write of the touched handle of a removed node *)
| EUndo (c : nat) (l : N)                      (* a logged image of c was written back over l *)
| EFailover (c : nat).                         (* priority rollback of c refused: version precondition failed *)

Record state := mkSt {
  sreg : list handle;
  sblobs : list N;
  slocks : list (N * nat);           (* node lock table: logical id -> owner *)
  stxs : list txn;
  shist : list event                 (* ghost: most recent first *)
}.

Inductive label :=
| LLock (i : nat) | LClaim (i : nat) | LWrite (i : nat) | LBlob (i : nat) | LMark (i : nat) | LPlog (i : nat)
| LCheck (i : nat) | LFlipFail (i : nat) | LPlogRm (i : nat) | LUnlock (i : nat) | LCleanBlobs (i : nat) | LCleanReg (i : nat)
| LRollback (i : nat) | LCrash (i : nat)
| LLockExpire (l : N) | LAge (l : N) | LPrio (c : nat)
| LAddNode (l : N)      (* commitAddedNodes of some transaction registers a brand-new node (logical id = blob id, version 1) *)
| LPermute (i : nat) (pd : list (wkind * handle)).
   (* the undo batch of rollback() is written in the order of a fresh classifyModifiedNodes() call, i.e. of a Go map
      iteration: any order of the pending undo batch is possible *)

(* ------------------------------------------------------------------ helpers *)

Definition pc_eqb (a b : pcT) : bool :=
  match a, b with
  | PStart, PStart | PLocked, PLocked | PClaiming, PClaiming | PStaged, PStaged | PMarking, PMarking | PLogged, PLogged
  | PFlipping, PFlipping | PInstalled, PInstalled | PUnlocked, PUnlocked | PCleaned, PCleaned | PDone, PDone
  | PRestoring, PRestoring | PRolling, PRolling | PAborted, PAborted => true
  | _, _ => false
  end.

Definition wkind_eqb (a b : wkind) : bool :=
  match a, b with WClaim, WClaim | WMark, WMark | WFlip, WFlip | WTouch, WTouch | WUndo, WUndo | WRestore, WRestore => true | _, _ => false end.
Definition pend_eqb (p q : wkind * handle) : bool := wkind_eqb (fst p) (fst q) && handle_eqb (snd p) (snd q).
(* same entries, same length (a reordering) *)
Definition perm_of (a b : list (wkind * handle)) : bool :=
  Nat.eqb (length a) (length b) && forallb (fun x => existsb (pend_eqb x) a) b && forallb (fun x => existsb (pend_eqb x) b) a.

Definition upd_lids (t : txn) : list N := map (fun x => fst (fst x)) (t_upd t).
Definition rem_lids (t : txn) : list N := map fst (t_rem t).
Definition keys (t : txn) : list N := upd_lids t ++ rem_lids t.

Fixpoint lock_of (lk : list (N * nat)) (l : N) : option nat :=
  match lk with
  | [] => None
  | (l', o) :: r => if l' =? l then Some o else lock_of r l
  end.
Definition unlock_one (lk : list (N * nat)) (l : N) : list (N * nat) := filter (fun p => negb (fst p =? l)) lk.
Definition unlock_owned (lk : list (N * nat)) (i : nat) (ks : list N) : list (N * nat) :=
  filter (fun p => negb (mem (fst p) ks && Nat.eqb (snd p) i)) lk.
Definition free_or_own (lk : list (N * nat)) (i : nat) (ks : list N) : bool :=
  forallb (fun l => match lock_of lk l with None => true | Some o => Nat.eqb o i end) ks.
Definition all_own (lk : list (N * nat)) (i : nat) (ks : list N) : bool :=
  forallb (fun l => match lock_of lk l with Some o => Nat.eqb o i | None => false end) ks.
(* acquire: every key not yet owned is added with owner i *)
Definition acquire (lk : list (N * nat)) (i : nat) (ks : list N) : list (N * nat) :=
  fold_left (fun acc l => match lock_of acc l with Some _ => acc | None => (l, i) :: acc end) ks lk.

Definition get_tx (s : state) (i : nat) : option txn := nth_error (stxs s) i.
Fixpoint set_nth {A} (l : list A) (i : nat) (x : A) : list A :=
  match l, i with
  | [], _ => []
  | _ :: r, O => x :: r
  | y :: r, S n => y :: set_nth r n x
  end.

Definition with_pc (t : txn) (p : pcT) : txn :=
  mkTx (t_upd t) (t_rem t) p (t_crashed t) (t_pend t) (t_claimed t) (t_marked t) (t_plog t).
Definition with_pend (t : txn) (p : pcT) (pd : list (wkind * handle)) : txn :=
  mkTx (t_upd t) (t_rem t) p (t_crashed t) pd (t_claimed t) (t_marked t) (t_plog t).
Definition with_plog (t : txn) (p : pcT) (pl : option (list handle)) : txn :=
  mkTx (t_upd t) (t_rem t) p (t_crashed t) (t_pend t) (t_claimed t) (t_marked t) pl.

Definition put (s : state) (i : nat) (t : txn) : state :=
  mkSt (sreg s) (sblobs s) (slocks s) (set_nth (stxs s) i t) (shist s).

Definition tag (k : wkind) (hs : list handle) : list (wkind * handle) := map (fun h => (k, h)) hs.

(* a transaction that is inside the part of its commit in which it has read, and may have stamped, its handles *)
Definition busy (t : txn) : bool :=
  negb (t_crashed t) &&
  match t_pc t with PStart | PLocked | PUnlocked | PCleaned | PDone | PAborted => false | _ => true end.

(* the undo batch of rollback(): rollbackRemovedNodes (only when the removed nodes were completely marked) and
   rollbackUpdatedNodes, both on handles RE-READ from the registry; the staged blobs are removed first *)
Definition undo_batch (s : state) (t : txn) (undo_rem : bool) : list (wkind * handle) * list N :=
  let hs := reg_get (sreg s) (upd_lids t) in
  ((if undo_rem then tag WUndo (undelete (reg_get (sreg s) (rem_lids t))) else [])
     ++ tag WUndo (rb_updated_handles hs),
   rb_updated_blobs hs).

Definition start_rollback (s : state) (i : nat) (t : txn) (undo_rem : bool) : state :=
  let '(pd, bl) := undo_batch s t undo_rem in
  mkSt (sreg s) (blob_del (sblobs s) bl) (slocks s)
       (set_nth (stxs s) i (mkTx (t_upd t) (t_rem t) PRolling (t_crashed t) pd (t_claimed t) (t_marked t) None))
       (shist s).

Definition ev_of (i : nat) (k : wkind) (h : handle) : list event :=
  match k with
  | WFlip => [EInstall i (lid h) (ver h - 1)%Z (active h)]
  | WTouch => [ERemove i (lid h) (ver h - 1)%Z]
  | WRestore => [EUndo i (lid h)]
  | _ => []
  end.

Definition mentions (pl : option (list handle)) (l : N) : bool :=
  match pl with Some hs => mem l (map lid hs) | None => false end.

(* the version precondition of doPriorityRollbacks: the logged version is the current one or one behind it *)
Definition prio_ver_ok (r : list handle) (imgs : list handle) : bool :=
  forallb (fun h => match lookup r (lid h) with
                    | Some c => Z.eqb (ver h) (ver c) || Z.eqb (ver h + 1) (ver c)
                    | None => false
                    end) imgs.

(* commitRemovedNodes never looks at the inactive id: a mark over a foreign unexpired claim *)
Definition marks_over_claim (r : list handle) (lids : list N) : bool :=
  existsb (fun l => match lookup r l with
                    | Some h => negb (inactive h =? 0) && (wip h =? 2) && negb (del h)
                    | None => false
                    end) lids.

(* an id that occurs nowhere: not in the registry, not as a blob, not among the ids any transaction will allocate *)
Definition fresh_id (s : state) (x : N) : bool :=
  negb (x =? 0)
  && negb (existsb (fun h => (lid h =? x) || (ida h =? x) || (idb h =? x)) (sreg s))
  && negb (mem x (sblobs s))
  && negb (existsb (fun t => mem x (map snd (t_upd t))) (stxs s)).

(* ------------------------------------------------------------------ the step function *)

Definition live (t : txn) : bool := negb (t_crashed t).

Definition step (hy : hyps) (s : state) (lab : label) : option state :=
  match lab with
  | LLock i =>
      match get_tx s i with
      | Some t =>
          if live t && pc_eqb (t_pc t) PStart && free_or_own (slocks s) i (keys t)
          then Some (mkSt (sreg s) (sblobs s) (acquire (slocks s) i (keys t)) (set_nth (stxs s) i (with_pc t PLocked)) (shist s))
          else None
      | None => None
      end
  | LClaim i =>
      match get_tx s i with
      | Some t =>
          if live t && pc_eqb (t_pc t) PLocked then
            match claims (sreg s) (t_upd t) with
            | Some hs => Some (put s i (mkTx (t_upd t) (t_rem t) PClaiming false (tag WClaim hs) hs [] None))
            | None => Some (put s i (with_pend t PRolling []))      (* conflict: nothing was written, unlock follows *)
            end
          else None
      | None => None
      end
  | LWrite i =>
      match get_tx s i with
      | Some t =>
          if live t then
            match t_pend t with
            | (k, h) :: r =>
                Some (mkSt (reg_set (sreg s) h) (sblobs s) (slocks s)
                           (set_nth (stxs s) i (with_pend t (t_pc t) r)) (ev_of i k h ++ shist s))
            | [] => None
            end
          else None
      | None => None
      end
  | LBlob i =>
      match get_tx s i with
      | Some t =>
          if live t && pc_eqb (t_pc t) PClaiming && negb (nonempty (t_pend t))
          then Some (mkSt (sreg s) (blob_add (sblobs s) (map snd (t_upd t))) (slocks s) (set_nth (stxs s) i (with_pc t PStaged)) (shist s))
          else None
      | None => None
      end
  | LMark i =>
      match get_tx s i with
      | Some t =>
          if live t && pc_eqb (t_pc t) PStaged then
            if h_mark hy && marks_over_claim (sreg s) (rem_lids t) then None
            else
            match marks (sreg s) (t_rem t) with
            | Some ms => Some (put s i (mkTx (t_upd t) (t_rem t) PMarking false (tag WMark ms) (t_claimed t) ms None))
            | None => Some (start_rollback s i t false)              (* conflict: committedState = commitRemovedNodes *)
            end
          else None
      | None => None
      end
  | LPlog i =>
      match get_tx s i with
      | Some t =>
          if live t && pc_eqb (t_pc t) PMarking && negb (nonempty (t_pend t))
          then let imgs := t_claimed t ++ t_marked t in
               Some (put s i (with_plog t PLogged (if nonempty imgs then Some imgs else None)))
          else None
      | None => None
      end
  | LCheck i =>
      (* nodesKeysNilOrLocked, and DualLock when the locks were lost; success prepares the phase-2 batch
         (activateInactiveNodes / touchNodes on the in-memory images) *)
      match get_tx s i with
      | Some t =>
          if live t && pc_eqb (t_pc t) PLogged then
            let batch := tag WFlip (map flip (t_claimed t)) ++ tag WTouch (map touch (t_marked t)) in
            if all_own (slocks s) i (keys t) then Some (put s i (with_pend t PFlipping batch))
            else if free_or_own (slocks s) i (keys t)
            then Some (mkSt (sreg s) (sblobs s) (acquire (slocks s) i (keys t)) (set_nth (stxs s) i (with_pend t PFlipping batch)) (shist s))
            else Some (start_rollback s i t true)
          else None
      | None => None
      end
  | LFlipFail i =>
      (* an error of the phase-2 registry update: logger.priorityRollback writes the logged images back *)
      match get_tx s i with
      | Some t =>
          if live t && pc_eqb (t_pc t) PFlipping
          then Some (put s i (with_pend t PRestoring (match t_plog t with Some hs => tag WRestore hs | None => [] end)))
          else None
      | None => None
      end
  | LPlogRm i =>
      match get_tx s i with
      | Some t =>
          if live t && pc_eqb (t_pc t) PFlipping && negb (nonempty (t_pend t))
          then Some (put s i (with_plog t PInstalled None))
          else None
      | None => None
      end
  | LUnlock i =>
      match get_tx s i with
      | Some t =>
          if live t && pc_eqb (t_pc t) PInstalled
          then Some (mkSt (sreg s) (sblobs s) (unlock_owned (slocks s) i (keys t)) (set_nth (stxs s) i (with_pc t PUnlocked)) (shist s))
          else if live t && pc_eqb (t_pc t) PRolling && negb (nonempty (t_pend t))
          then Some (mkSt (sreg s) (sblobs s) (unlock_owned (slocks s) i (keys t)) (set_nth (stxs s) i (with_pc t PAborted)) (shist s))
          else None
      | None => None
      end
  | LCleanBlobs i =>
      (* deleteObsoleteEntries, blob part: the previous active id of every updated node, the active id of every removed node *)
      match get_tx s i with
      | Some t =>
          if live t && pc_eqb (t_pc t) PUnlocked
          then Some (mkSt (sreg s) (blob_del (sblobs s) (map active (t_claimed t) ++ map active (t_marked t))) (slocks s)
                          (set_nth (stxs s) i (with_pc t PCleaned)) (shist s))
          else None
      | None => None
      end
  | LCleanReg i =>
      match get_tx s i with
      | Some t =>
          if live t && pc_eqb (t_pc t) PCleaned
          then Some (mkSt (fold_left reg_del (map lid (t_marked t)) (sreg s)) (sblobs s) (slocks s)
                          (set_nth (stxs s) i (with_pc t PDone)) (shist s))
          else None
      | None => None
      end
  | LRollback i =>
      match get_tx s i with
      | Some t =>
          if live t then
            match t_pc t with
            | PLocked => Some (put s i (with_pend t PRolling []))
            | PClaiming => Some (put s i (with_pend t PRolling []))         (* error inside commitUpdatedNodes: committedState is still before it, claims stay *)
            | PStaged => Some (start_rollback s i t false)
            | PMarking => Some (start_rollback s i t false)                 (* error inside commitRemovedNodes: marks already written stay *)
            | PLogged => Some (start_rollback s i t true)
            | PRestoring => if nonempty (t_pend t) then None else Some (start_rollback s i t true)
            | _ => None
            end
          else None
      | None => None
      end
  | LCrash i =>
      match get_tx s i with
      | Some t =>
          if live t && negb (pc_eqb (t_pc t) PDone) && negb (pc_eqb (t_pc t) PAborted)
          then Some (put s i (mkTx (t_upd t) (t_rem t) (t_pc t) true (t_pend t) (t_claimed t) (t_marked t) (t_plog t)))
          else None
      | None => None
      end
  | LLockExpire l =>
      match lock_of (slocks s) l with
      | Some o =>
          if negb (h_lock hy) || match get_tx s o with Some t => t_crashed t | None => true end
          then Some (mkSt (sreg s) (sblobs s) (unlock_one (slocks s) l) (stxs s) (shist s))
          else None
      | None => None
      end
  | LAge l =>
      match lookup (sreg s) l with
      | Some h =>
          if (wip h =? 2)
             && (negb (h_lock hy) || match lock_of (slocks s) l with
                                     | Some o => match get_tx s o with Some t => negb (busy t) | None => true end
                                     | None => true
                                     end)
             && (negb (h_recov hy) || negb (existsb (fun t => mentions (t_plog t) l) (stxs s)))
          then Some (mkSt (reg_set (sreg s) (mkH (lid h) (ida h) (idb h) (activeB h) (ver h) 1 (del h))) (sblobs s) (slocks s) (stxs s) (shist s))
          else None
      | None => None
      end
  | LPrio c =>
      match get_tx s c with
      | Some t =>
          match t_plog t with
          | Some imgs =>
              if (negb (h_lock hy) || t_crashed t) && free_or_own (slocks s) c (map lid imgs) then
                if prio_ver_ok (sreg s) imgs
                then Some (mkSt (fold_left reg_set imgs (sreg s)) (sblobs s)
                                (filter (fun p => negb (mem (fst p) (map lid imgs))) (slocks s))
                                (set_nth (stxs s) c (with_plog t (t_pc t) None))
                                (map (fun h => EUndo c (lid h)) imgs ++ shist s))
                else Some (mkSt (sreg s) (sblobs s)
                                (filter (fun p => negb (mem (fst p) (map lid imgs))) (slocks s))
                                (stxs s) (EFailover c :: shist s))
              else None
          | None => None
          end
      | None => None
      end
  | LAddNode l =>
      if fresh_id s l
      then Some (mkSt (sreg s ++ [added_handle l]) (sblobs s ++ [l]) (slocks s) (stxs s) (shist s))
      else None
  | LPermute i pd =>
      match get_tx s i with
      | Some t =>
          if live t && pc_eqb (t_pc t) PRolling && perm_of (t_pend t) pd
          then Some (put s i (with_pend t PRolling pd))
          else None
      | None => None
      end
  end.

Fixpoint exec (hy : hyps) (s : state) (ls : list label) : option state :=
  match ls with
  | [] => Some s
  | l :: r => match step hy s l with Some s' => exec hy s' r | None => None end
  end.

(* ------------------------------------------------------------------ initial states *)

Definition fresh_tx (u : list (N * Z * N)) (r : list (N * Z)) : txn := mkTx u r PStart false [] [] [] None.
Definition init_state (r : list handle) (b : list N) (specs : list (list (N * Z * N) * list (N * Z))) : state :=
  mkSt r b [] (map (fun p => fresh_tx (fst p) (snd p)) specs) [].

(* ------------------------------------------------------------------ observations on states and histories *)

(* every handle that is not marked deleted resolves to a blob that is present *)
Definition points_at_data (s : state) : bool :=
  forallb (fun h => del h || mem (active h) (sblobs s)) (sreg s).

(* history predicate of C37_single_successor, chronological list (oldest first):
   once i has installed a successor of version v of l (flip or removal), nobody else installs a successor of the
   same version unless a logged image was written back over l in between *)
Definition succ_of (e : event) : option (nat * N * Z) :=
  match e with
  | EInstall i l v _ => Some (i, l, v)
  | ERemove i l v => Some (i, l, v)
  | _ => None
  end.
Definition is_undo_of (l : N) (e : event) : bool :=
  match e with EUndo _ l' => l' =? l | _ => false end.
Fixpoint no_second (i : nat) (l : N) (v : Z) (rest : list event) : bool :=
  match rest with
  | [] => true
  | e :: r =>
      if is_undo_of l e then true
      else match succ_of e with
           | Some (j, l', v') => if (l' =? l) && Z.eqb v' v && negb (Nat.eqb j i) then false else no_second i l v r
           | None => no_second i l v r
           end
  end.
Fixpoint single_successor_chron (h : list event) : bool :=
  match h with
  | [] => true
  | e :: r => match succ_of e with
              | Some (i, l, v) => no_second i l v r
              | None => true
              end && single_successor_chron r
  end.
Definition single_successor (s : state) : bool := single_successor_chron (rev (shist s)).

(* ------------------------------------------------------------------ trace acceptance (correspondence)

   An observation is what the recording decorators saw of ONE storage-interface call of one commit attempt,
   already attributed to a model transaction index.  accepts replays the observations on the model: each
   observation expands to the model steps it stands for, the steps must be enabled, and the recorded handle
   images must equal the images the model computes. *)

Inductive obs :=
| OLock (i : nat) (ok : bool)                     (* l2.Lock on the node keys *)
| OClaim (i : nat) (read : list handle) (written : option (list handle))
      (* commitUpdatedNodes: registry.Get result, UpdateNoLocks(false) argument (None: conflict, nothing written) *)
| OBlob (i : nat) (ids : list N)                  (* blobStore.Add of the staged nodes *)
| OMark (i : nat) (read : list handle) (written : option (list handle))      (* commitRemovedNodes *)
| OPlog (i : nat)                                 (* PriorityLog().Add *)
| OCheck (i : nat) (relocked : bool)              (* nodesKeysNilOrLocked: IsLocked, and DualLock when the locks were lost *)
| OFlip (i : nat) (written : list handle)         (* registry.UpdateNoLocks(true) *)
| OPlogRm (i : nat)
| OUnlock (i : nat)
| OCleanBlobs (i : nat) (ids : list N)
| OCleanReg (i : nat) (ids : list N)
| ORollback (i : nat)                             (* rollback() starts: registry re-read, staged blobs removed *)
| OWrites (i : nat) (written : list handle)       (* the undo batches of rollback(), in call order *)
| OCrash (i : nat) (torn : nat)                   (* the process died; torn = handles of the current batch that were written *)
| OEnv (l : label).                               (* an environment step the harness performed or caused: LLockExpire, LAge, LPrio *)

Definition handles_eqb (a b : list handle) : bool :=
  Nat.eqb (length a) (length b) && forallb (fun p => handle_eqb (fst p) (snd p)) (combine a b).
Definition ids_eqb (a b : list N) : bool :=
  Nat.eqb (length a) (length b) && forallb (fun p => fst p =? snd p) (combine a b).
Definition same_set (a b : list N) : bool := forallb (fun x => mem x b) a && forallb (fun x => mem x a) b.

Definition writes (i : nat) (n : nat) : list label := repeat (LWrite i) n.
Definition pend_handles (s : state) (i : nat) : list handle :=
  match get_tx s i with Some t => map snd (t_pend t) | None => [] end.
Definition pc_of (s : state) (i : nat) : pcT := match get_tx s i with Some t => t_pc t | None => PAborted end.

(* (steps, check on the state reached after the FIRST step, which is where the batch is computed) *)
Definition accept1 (hy : hyps) (s : state) (o : obs) : option state :=
  match o with
  | OLock i true => step hy s (LLock i)
  | OLock i false => Some s      (* a failed try-lock changes nothing (all-or-nothing) and may fail spuriously *)
  | OClaim i rd wr =>
      match get_tx s i with
      | Some t =>
          if handles_eqb (reg_get (sreg s) (upd_lids t)) rd then
            match step hy s (LClaim i), wr with
            | Some s1, Some hs => if handles_eqb (pend_handles s1 i) hs then exec hy s1 (writes i (length hs)) else None
            | Some s1, None => if pc_eqb (pc_of s1 i) PRolling then Some s1 else None
            | None, _ => None
            end
          else None
      | None => None
      end
  | OBlob i ids =>
      match get_tx s i with
      | Some t => if ids_eqb (map snd (t_upd t)) ids then step hy s (LBlob i) else None
      | None => None
      end
  | OMark i rd wr =>
      match get_tx s i with
      | Some t =>
          if handles_eqb (reg_get (sreg s) (rem_lids t)) rd then
            match step hy s (LMark i), wr with
            | Some s1, Some hs => if pc_eqb (pc_of s1 i) PMarking && handles_eqb (pend_handles s1 i) hs then exec hy s1 (writes i (length hs)) else None
            | Some s1, None => if pc_eqb (pc_of s1 i) PRolling then Some s1 else None
            | None, _ => None
            end
          else None
      | None => None
      end
  | OPlog i => step hy s (LPlog i)
  | OCheck i relocked =>
      match get_tx s i with
      | Some t => if Bool.eqb relocked (negb (all_own (slocks s) i (keys t))) then step hy s (LCheck i) else None
      | None => None
      end
  | OFlip i wr =>
      if pc_eqb (pc_of s i) PFlipping && handles_eqb (pend_handles s i) wr then exec hy s (writes i (length wr)) else None
  | OPlogRm i => step hy s (LPlogRm i)
  | OUnlock i => step hy s (LUnlock i)
  | OCleanBlobs i ids =>
      match get_tx s i with
      | Some t => if same_set (map active (t_claimed t) ++ map active (t_marked t)) ids then step hy s (LCleanBlobs i) else None
      | None => None
      end
  | OCleanReg i ids =>
      match get_tx s i with
      | Some t => if same_set (map lid (t_marked t)) ids then step hy s (LCleanReg i) else None
      | None => None
      end
  | ORollback i => step hy s (LRollback i)
  | OWrites i wr =>
      match get_tx s i with
      | Some t =>
          (* the pending undo batch, in the order in which the implementation wrote it *)
          let pd := flat_map (fun h => match find (fun p => handle_eqb (snd p) h) (t_pend t) with Some p => [p] | None => [] end) wr in
          match step hy s (LPermute i pd) with
          | Some s1 => if pc_eqb (pc_of s1 i) PRolling && handles_eqb (pend_handles s1 i) wr then exec hy s1 (writes i (length wr)) else None
          | None => None
          end
      | None => None
      end
  | OCrash i torn => match exec hy s (writes i torn) with Some s1 => step hy s1 (LCrash i) | None => None end
  | OEnv l => match l with LLockExpire _ | LAge _ | LPrio _ | LAddNode _ => step hy s l | _ => None end
  end.

Fixpoint accepts_run (hy : hyps) (s : state) (tr : list obs) : option state :=
  match tr with
  | [] => Some s
  | o :: r => match accept1 hy s o with Some s' => accepts_run hy s' r | None => None end
  end.

(* index of the first observation that is not accepted (for diagnostics), None = all accepted *)
Fixpoint first_reject (hy : hyps) (s : state) (tr : list obs) (k : nat) : option nat :=
  match tr with
  | [] => None
  | o :: r => match accept1 hy s o with Some s' => first_reject hy s' r (S k) | None => Some k end
  end.

Definition accepts (hy : hyps) (s : state) (tr : list obs) : bool :=
  match accepts_run hy s tr with Some _ => true | None => false end.

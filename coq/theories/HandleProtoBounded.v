(* Bounded, exhaustive exploration of HandleProto by computation: ALL interleavings, crash points, lock expiries of
   crashed owners, ageing and priority-rollback steps allowed by `strict`, for small fixed configurations (2 transactions
   over 1-2 nodes, updates and a removal).  Every reachable state is visited (breadth first, duplicates removed) and
   checked.  This complements the unbounded theorems (which leave node removals and points_at_data out). *)
From Coq Require Import List ZArith NArith Bool PeanoNat.
From SopVerif Require Import Proto HandleProto HandleProtoProofs.
Import ListNotations.
Local Open Scope N_scope.

Fixpoint list_eqb {A} (f : A -> A -> bool) (a b : list A) : bool :=
  match a, b with
  | [], [] => true
  | x :: a', y :: b' => f x y && list_eqb f a' b'
  | _, _ => false
  end.
Definition opt_eqb {A} (f : A -> A -> bool) (a b : option A) : bool :=
  match a, b with Some x, Some y => f x y | None, None => true | _, _ => false end.
Definition txn_eqb (a b : txn) : bool :=
  pc_eqb (t_pc a) (t_pc b) && Bool.eqb (t_crashed a) (t_crashed b)
  && list_eqb (fun p q => wkind_eqb (fst p) (fst q) && handle_eqb (snd p) (snd q)) (t_pend a) (t_pend b)
  && list_eqb handle_eqb (t_claimed a) (t_claimed b) && list_eqb handle_eqb (t_marked a) (t_marked b)
  && opt_eqb (list_eqb handle_eqb) (t_plog a) (t_plog b).
Definition event_eqb (a b : event) : bool :=
  match a, b with
  | EInstall i l v p, EInstall i' l' v' p' => Nat.eqb i i' && (l =? l') && Z.eqb v v' && (p =? p')
  | ERemove i l v, ERemove i' l' v' => Nat.eqb i i' && (l =? l') && Z.eqb v v'
  | EUndo c l, EUndo c' l' => Nat.eqb c c' && (l =? l')
  | EFailover c, EFailover c' => Nat.eqb c c'
  | _, _ => false
  end.
Definition state_eqb (a b : state) : bool :=
  list_eqb txn_eqb (stxs a) (stxs b)
  && list_eqb handle_eqb (sreg a) (sreg b) && list_eqb N.eqb (sblobs a) (sblobs b)
  && list_eqb (fun p q => (fst p =? fst q) && Nat.eqb (snd p) (snd q)) (slocks a) (slocks b)
  && list_eqb event_eqb (shist a) (shist b).

Definition tx_labels (i : nat) : list label :=
  [LLock i; LClaim i; LWrite i; LBlob i; LMark i; LPlog i; LCheck i; LFlipFail i; LPlogRm i; LUnlock i; LCleanBlobs i; LCleanReg i; LRollback i; LCrash i; LPrio i].
Definition all_labels (ntx : nat) (lids : list N) : list label :=
  flat_map tx_labels (List.seq 0%nat ntx) ++ flat_map (fun l => [LLockExpire l; LAge l]) lids.

Definition succs (hy : hyps) (labs : list label) (s : state) : list state :=
  flat_map (fun l => match step hy s l with Some s' => [s'] | None => [] end) labs.
Definition add_new (visited : list state) (cands : list state) : list state * list state :=
  fold_left (fun acc c => let '(vis, fresh) := acc in
                          if existsb (state_eqb c) vis then acc else (c :: vis, c :: fresh)) cands (visited, []).
(* returns (all states visited, frontier left when the fuel ran out) *)
Fixpoint bfs (hy : hyps) (labs : list label) (fuel : nat) (visited frontier : list state) : list state * list state :=
  match fuel with
  | O => (visited, frontier)
  | S f =>
      match frontier with
      | [] => (visited, [])
      | _ => let '(vis, fresh) := add_new visited (flat_map (succs hy labs) frontier) in bfs hy labs f vis fresh
      end
  end.

Definition explore (hy : hyps) (labs : list label) (fuel : nat) (s0 : state) (chk : state -> bool) : bool * nat * nat :=
  let '(vis, rest) := bfs hy labs fuel [s0] [s0] in
  (forallb chk vis, length vis, length rest).

Definition chk_all (s : state) : bool := points_at_data s && single_successor s.

(* the exploration is complete (empty frontier) and every reachable state passes *)
Definition complete_and_ok (r : bool * nat * nat) : bool := let '(ok, _, rest) := r in ok && Nat.eqb rest 0.

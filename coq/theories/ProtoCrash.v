(* Crash points of the commit protocol: the state the durable storage is left in when the committing process dies
   just before one of its storage-interface calls, or in the middle of the per-handle writes of the phase-2
   registry update.  No recovery is applied here: on the public path of the code none runs (C09). *)
From Coq Require Import List ZArith NArith Bool Lia.
From SopVerif Require Import Proto ProtoProofs ProtoSuccess.
Import ListNotations.
Local Open Scope N_scope.

(* cleanup, stopping for good at the first call that does not happen *)
Definition step_or_stop (a : st -> bool * st) (k : st -> st) (s : st) : st :=
  match a s with (true, s') => k s' | (false, s') => s' end.

Definition cleanup_crash (flipped : list handle) (t : txn) (s : st) : st :=
  step_or_stop (log deleteObsoleteEntries) (fun s1 =>
    let upd := firstn (length (updated t)) flipped in
    let rem := skipn (length (updated t)) flipped in
    let unused := map inactive upd ++ map active rem in
    step_or_stop (if nonempty unused then issue (BlobRemove unused) else fun s => (true, s)) (fun s2 =>
    step_or_stop (issue (RegRemove (map lid rem))) (fun s3 =>
    step_or_stop (log deleteTrackedItemsValues) (fun s4 =>
    step_or_stop (if nonempty (obsolete t) then issue (BlobRemove (obsolete t)) else fun s => (true, s)) (fun s5 =>
    step_or_stop (issue TlogRemove) (fun s6 => s6) s5) s4) s3) s2) s1) s.

(* (reached the flip?, state at the moment of death); the injected position is fault (init d (Some k)) *)
Definition commit_crash (t : txn) (s0 : st) : bool * st :=
  match phase1 t s0 with
  | (Stop, s1) | (Conflict, s1) => (false, s1)
  | (Go, s1) =>
      match log finalizeCommit s1 with
      | (false, s2) => (false, s2)
      | (true, s2) =>
          let fl := to_flip t s2 in
          if nonempty fl then
            match issue (RegUpd true fl) s2 with
            | (false, s3) => (false, s3)
            | (true, s3) => (true, step_or_stop (issue PlogRemove) (cleanup_crash fl t) s3)
            end
          else (true, cleanup_crash fl t s2)
      end
  end.

Definition crash (t : txn) (d : disk) (k : nat) : bool * disk :=
  let '(b, s) := commit_crash t (init d (Some k)) in (b, dk s).

(* the phase-2 registry update writes one handle block at a time: death after the first j handles *)
Definition torn_flip (t : txn) (d : disk) (j : nat) : option disk :=
  match phase1 t (init d None) with
  | (Go, s1) =>
      match log finalizeCommit s1 with
      | (true, s2) => apply_call (dk s2) (RegUpd true (firstn j (to_flip t s2)))
      | _ => None
      end
  | _ => None
  end.

(* death in the middle of ANY batched registry update (claims, deletion marks, or the phase-2 flip): the call at
   position k is the batch, and only the handles of the logical ids in lids were written *)
Definition crash_torn (t : txn) (d : disk) (k : nat) (lids : list N) : option disk :=
  let '(_, s) := commit_crash t (init d (Some k)) in
  match tr s with
  | (RegUpd b hs, false) :: _ => apply_call (dk s) (RegUpd b (filter (fun h => mem (lid h) lids) hs))
  | _ => None
  end.

(* ---------------------------------------------------------------- dying before the flip changes nothing visible *)

Theorem crash_before_flip_keeps_view t d k d' :
  wf_disk d -> W d t -> crash t d k = (false, d') ->
  forall l h0, lookup (reg d) l = Some h0 ->
    resolve d' l = Some (active h0)
    /\ (exists h, lookup (reg d') l = Some h /\ ver h = ver h0)
    /\ (In (active h0) (blobs d) -> In (active h0) (blobs d')).
Proof.
  intros Hwf HW Hc l h0 Hl. unfold crash in Hc.
  destruct (commit_crash t (init d (Some k))) as [b s] eqn:E. inversion Hc; subst b d'. clear Hc.
  assert (HJ0 : Jst d (init d (Some k))) by (unfold Jst, init; cbn [dk]; apply J_init; exact Hwf).
  assert (HJ : Jst d s).
  { unfold commit_crash in E.
    pose proof (pres_phase1 d t HW _ HJ0) as H1. destruct (phase1 t (init d (Some k))) as [[| |] s1]; cbn [snd] in H1.
    - pose proof (log_J d finalizeCommit s1 H1) as H2.
      destruct (log finalizeCommit s1) as [[|] s2]; cbn [snd] in H2.
      + destruct (nonempty (to_flip t s2)).
        * destruct (issue (RegUpd true (to_flip t s2)) s2) as [[|] s3] eqn:E3; inversion E; subst.
          unfold Jst. rewrite (issue_dk_fail _ _ _ E3). exact H2.
        * inversion E.
      + inversion E; subst. exact H2.
    - inversion E; subst. exact H1.
    - inversion E; subst. exact H1. }
  destruct (J_dom _ _ HJ _ _ Hl) as [h Hh].
  pose proof (lookup_In _ _ _ Hh) as [Hin Hlid].
  destruct (J_ok _ _ HJ _ Hin) as [Hag _]. rewrite Hlid in Hag. destruct (Hag _ Hl) as [Ha Hv].
  split; [|split].
  - unfold resolve. rewrite Hh, Ha. reflexivity.
  - exists h. split; [exact Hh|exact Hv].
  - intros Hb. exact (J_blob _ _ HJ _ _ Hl Hb).
Qed.

(* ---------------------------------------------------------------- a concrete transaction, every crash point *)

(* two updated nodes (so that the flip can be torn), one removed, one added, count deltas *)
Definition d_c : disk :=
  mkD [mkH 10 10 0 false 3%Z 0 false; mkH 11 11 0 false 2%Z 0 false; mkH 12 12 0 false 5%Z 0 false; mkH 13 13 0 false 1%Z 0 false]
      [10; 11; 12; 13] [(1, 7%Z)] false None.
Definition t_c : txn :=
  mkT true [] [] [] [] [] [(10, 3%Z, 30); (13, 1%Z, 33)] [(11, 2%Z)] [40] [(1, 2%Z)] [(1, (-2)%Z)].

Definition view_of (d : disk) : list (option N) := map (resolve d) [10; 11; 12; 13; 40].
Definition old_view : list (option N) := [Some 10; Some 11; Some 12; Some 13; None].
(* before the flip the added node may already be registered; nothing registered refers to it yet *)
Definition old_view_staged : list (option N) := [Some 10; Some 11; Some 12; Some 13; Some 40].
Definition new_view : list (option N) := [Some 30; None; Some 12; Some 33; Some 40].
(* after the flip and before cleanup removes the entry of the removed node it is still registered (marked deleted) *)
Definition new_view_pending : list (option N) := [Some 30; Some 11; Some 12; Some 33; Some 40].

Definition list_optN_eqb (a b : list (option N)) : bool :=
  (length a =? length b)%nat && forallb (fun p => match p with (Some x, Some y) => x =? y | (None, None) => true | _ => false end) (combine a b).

(* bounded statement, by computation: at every one of the crash points of this transaction (41 covers all calls)
   the nodes resolve as before the transaction or as after it *)
Example crash_points_view_bounded :
  forallb (fun k => let '(_, d') := crash t_c d_c k in
                    list_optN_eqb (view_of d') old_view || list_optN_eqb (view_of d') old_view_staged || list_optN_eqb (view_of d') new_view || list_optN_eqb (view_of d') new_view_pending)
          (List.seq 0%nat 41%nat) = true.
Proof. vm_compute. reflexivity. Qed.

(* ---------------------------------------------------------------- refutations *)

(* the count is updated (commitStoreInfo) before the flip: dying in between leaves the new count with the old items *)
Theorem crash_count_ahead_of_items_refuted :
  exists t d k d', wf_disk d /\ W d t /\ crash t d k = (false, d')
    /\ view_of d' = old_view_staged /\ count_of d 1 = 7%Z /\ count_of d' 1 = 9%Z.
Proof.
  exists t_c, d_c, 16%nat. eexists. split; [|split; [|split; [vm_compute; reflexivity|vm_compute; repeat split]]].
  - constructor.
    + cbn. repeat constructor; cbn; intuition discriminate.
    + intros h Hin. cbn in Hin. destruct Hin as [E|[E|[E|[E|[]]]]]; subst h; cbn; intuition discriminate.
    + reflexivity.
  - constructor; cbn; repeat constructor; cbn; intuition discriminate.
Qed.

(* torn phase-2 registry update: one of two updated nodes shows its new content, the other its old one *)
Theorem torn_flip_mixed_view_refuted :
  exists t d j d', torn_flip t d j = Some d' /\ view_of d' <> old_view /\ view_of d' <> old_view_staged /\ view_of d' <> new_view /\ view_of d' <> new_view_pending
    /\ resolve d' 10 = Some 30 /\ resolve d' 13 = Some 13.
Proof.
  exists t_c, d_c, 1%nat. eexists. split; [vm_compute; reflexivity|].
  repeat split; try (vm_compute; discriminate); reflexivity.
Qed.

(* a crash during phase-1 staging leaves a claimed inactive id (current timestamp): the next writer of that node conflicts *)
Theorem crash_leaves_claim_blocking_next_writer_refuted :
  exists t d k d', crash t d k = (false, d') /\ (exists d1 tr1, run t d None = (Committed, d1, tr1))
    /\ (exists d2 tr2, run t d' None = (Conflicted, d2, tr2)).
Proof.
  exists (mkT true [] [] [] [] [] [(10, 3%Z, 30)] [] [] [] []).
  exists (mkD [mkH 10 10 0 false 3%Z 0 false] [10] [] false None). exists 7%nat. eexists.
  split; [vm_compute; reflexivity|]. split; eexists; eexists; vm_compute; reflexivity.
Qed.

(* Proofs about the EC model (EC.v): C25 read / no-panic / excess / write, C26 repair. *)
From Coq Require Import List NArith Bool Arith Lia.
From SopVerif Require Import EC.
Import ListNotations.

(* ------------------------------------------------------------------ generic list facts *)
Lemma combine_map_same {A B C} (f : A -> B) (g : A -> C) (l : list A) :
  combine (map f l) (map g l) = map (fun x => (f x, g x)) l.
Proof. induction l as [|x r IH]; cbn; [reflexivity|now rewrite IH]. Qed.

Lemma filter_length_le {A} (f : A -> bool) (l : list A) : length (filter f l) <= length l.
Proof. induction l as [|x r IH]; cbn; [lia|destruct (f x); cbn; lia]. Qed.

Lemma filter_negb_length {A} (f : A -> bool) (l : list A) :
  length (filter f l) + length (filter (fun x => negb (f x)) l) = length l.
Proof. induction l as [|x r IH]; cbn; [reflexivity|destruct (f x); cbn; lia]. Qed.

Lemma filter_length_impl {A} (f g : A -> bool) (l : list A) :
  (forall x, In x l -> f x = true -> g x = true) -> length (filter f l) <= length (filter g l).
Proof.
  induction l as [|x r IH]; intros H; cbn; [lia|].
  assert (Hr : length (filter f r) <= length (filter g r)) by (apply IH; intros y Hy; apply H; now right).
  destruct (f x) eqn:Hf.
  - rewrite (H x (or_introl eq_refl) Hf). cbn. lia.
  - destruct (g x); cbn; lia.
Qed.

Lemma filter_map_length {A B} (f : B -> bool) (g : A -> B) (l : list A) :
  length (filter f (map g l)) = length (filter (fun x => f (g x)) l).
Proof. induction l as [|x r IH]; cbn; [reflexivity|destruct (f (g x)); cbn; now rewrite IH]. Qed.

Lemma all_repeat {A} (a : A) (l : list A) : (forall x, In x l -> x = a) -> l = repeat a (length l).
Proof.
  induction l as [|x r IH]; intros H; cbn; [reflexivity|].
  rewrite (H x (or_introl eq_refl)). f_equal. apply IH. intros y Hy. apply H. now right.
Qed.

Lemma nil_positions_nil i ss : nil_positions i ss = [] -> forall o, In o ss -> exists x, o = Some x.
Proof.
  revert i; induction ss as [|o r IH]; intros i H o' Hin; [destruct Hin|].
  destruct o as [x|]; cbn in H; [|discriminate].
  destruct Hin as [<-|Hin]; [now exists x|exact (IH _ H _ Hin)].
Qed.

Lemma nil_positions_lt i ss k : In k (nil_positions i ss) -> i <= k < i + length ss /\ nth_error ss (k - i) = Some None.
Proof.
  revert i; induction ss as [|o r IH]; intros i H; [destruct H|].
  destruct o as [x|]; cbn in H.
  - destruct (IH _ H) as [Hr Hn]. split; [cbn; lia|]. replace (k - i) with (S (k - S i)) by lia. exact Hn.
  - destruct H as [<-|H].
    + split; [cbn; lia|]. now rewrite Nat.sub_diag.
    + destruct (IH _ H) as [Hr Hn]. split; [cbn; lia|]. replace (k - i) with (S (k - S i)) by lia. exact Hn.
Qed.

Lemma nil_positions_complete i ss k : nth_error ss k = Some None -> In (i + k) (nil_positions i ss).
Proof.
  revert i k; induction ss as [|o r IH]; intros i k H; [destruct k; discriminate|].
  destruct k as [|k]; cbn in H.
  - injection H as ->. cbn. left. lia.
  - specialize (IH (S i) k H). replace (i + S k) with (S i + k) by lia. destruct o; cbn; [exact IH|now right].
Qed.

Lemma join_repeat k m : k <= m -> join k (repeat (Some DGood) m) = Some (repeat DGood k).
Proof.
  revert m; induction k as [|k IH]; intros m H; [reflexivity|].
  destruct m as [|m]; [lia|]. cbn. rewrite IH by lia. reflexivity.
Qed.

Lemma join_good k ss j : join k ss = Some j -> (forall x, In (Some x) ss -> x = DGood) -> j = repeat DGood k.
Proof.
  revert ss j; induction k as [|k IH]; intros ss j H Hg; cbn in H; [now injection H as <-|].
  destruct ss as [|[x|] r]; try discriminate.
  destruct (join k r) as [j'|] eqn:Hj; [|discriminate]. cbn in H. injection H as <-.
  cbn. rewrite (Hg x (or_introl eq_refl)). f_equal. apply (IH r); [exact Hj|]. intros y Hy. apply Hg. now right.
Qed.

Lemma join_length k ss j : join k ss = Some j -> length j = k.
Proof.
  revert ss j; induction k as [|k IH]; intros ss j H; cbn in H; [now injection H as <-|].
  destruct ss as [|[x|] r]; try discriminate.
  destruct (join k r) as [j'|] eqn:Hj; [|discriminate]. cbn in H. injection H as <-. cbn. now rewrite (IH _ _ Hj).
Qed.

(* ------------------------------------------------------------------ geometry *)
Lemma perShard_pos d size : 1 <= d -> (1 <= size)%N -> (1 <= perShard d size)%N.
Proof.
  intros Hd Hs. unfold perShard. apply N.div_le_lower_bound; lia.
Qed.

Lemma truepad_lt d size : 1 <= d -> (truepad d size < N.of_nat d)%N.
Proof.
  intros Hd. unfold truepad. assert (HD : (N.of_nat d <> 0)%N) by lia.
  pose proof (N.mod_lt size (N.of_nat d) HD) as Hm. set (m := (size mod N.of_nat d)%N) in *. clearbody m.
  destruct (m =? 0)%N eqn:E; [lia|]. apply N.eqb_neq in E. lia.
Qed.

(* size = d * perShard - truepad: the stripped length is the blob length *)
Lemma truepad_exact d size : 1 <= d -> (perShard d size * N.of_nat d - truepad d size = size)%N /\ (truepad d size <= perShard d size * N.of_nat d)%N.
Proof.
  intros Hd. unfold perShard, truepad.
  set (D := N.of_nat d). assert (HD : (D <> 0)%N) by (unfold D; lia).
  pose proof (N.div_mod size D HD) as E. pose proof (N.mod_lt size D HD) as Hm.
  set (q := (size / D)%N) in *. set (m := (size mod D)%N) in *. clearbody q m.
  destruct (m =? 0)%N eqn:E0.
  - apply N.eqb_eq in E0. subst m.
    assert (Hq : ((size + D - 1) / D = q)%N).
    { symmetry. apply (N.div_unique (size + D - 1) D q (D - 1)); [lia|]. rewrite E. lia. }
    rewrite Hq. rewrite E. nia.
  - apply N.eqb_neq in E0.
    assert (Hq : ((size + D - 1) / D = q + 1)%N).
    { symmetry. apply (N.div_unique (size + D - 1) D (q + 1) (m - 1)); [lia|]. rewrite E. nia. }
    rewrite Hq. rewrite E. nia.
Qed.

(* ------------------------------------------------------------------ the read path *)
Section Read.
  Variables (d p : nat) (size : N) (md5 : sdata -> N).
  Variable rs_verify : list (option sdata) -> bool.
  Variable rs_reconstruct : list (option sdata) -> option (list (option sdata)).
  Hypothesis Hd : 1 <= d.
  Hypothesis Hsize : (1 <= size)%N.

  Notation n := (d + p).
  Notation Lc := (perShard d size).
  Notation tp := (truepad d size).
  Notation getOne := (getOne d size md5 rs_verify rs_reconstruct).
  Notation decode := (decode d size md5 rs_verify rs_reconstruct).
  Notation detectBad := (detectBadShardsThenReconstruct d size md5 rs_verify rs_reconstruct).
  Notation keep := (keep_shard d size md5).
  Notation intact := (intact d size md5).

  (* what a reader goroutine hands over *)
  Definition view (s : dshard) : option (meta * sdata) :=
    match s with
    | SFile len pad sum data => if (len <=? MetaDataSize)%N then None else Some ((pad, sum), data)
    | SMissing => None
    end.
  Definition sv (s : dshard) : option sdata := option_map snd (view s).
  Definition mv (s : dshard) : option meta := option_map fst (view s).
  Definition kept1 (s : dshard) : option sdata := keep (sv s, mv s).

  Lemma read_shard_view s : read_shard s = Ok (view s).
  Proof.
    destruct s as [|len pad sum data]; cbn; [reflexivity|].
    destruct (len <=? MetaDataSize)%N eqn:E; [reflexivity|].
    unfold go_slice. apply N.leb_gt in E. destruct (len <? MetaDataSize)%N eqn:E2; [apply N.ltb_lt in E2; lia|reflexivity].
  Qed.

  Lemma mapM_read disk : mapM read_shard disk = Ok (map view disk).
  Proof. induction disk as [|s r IH]; cbn; [reflexivity|]. rewrite read_shard_view. cbn. rewrite IH. reflexivity. Qed.

  Lemma readable_view s : readable s = match view s with Some _ => true | None => false end.
  Proof.
    destruct s as [|len pad sum data]; cbn; [reflexivity|].
    destruct (len <=? MetaDataSize)%N eqn:E, (MetaDataSize <? len)%N eqn:E2; try reflexivity.
    - apply N.leb_le in E. apply N.ltb_lt in E2. lia.
    - apply N.leb_gt in E. apply N.ltb_ge in E2. lia.
  Qed.

  Lemma first_meta_pad disk : option_map fst (first_meta (map mv disk)) = first_readable_pad disk.
  Proof.
    induction disk as [|s r IH]; cbn; [reflexivity|].
    rewrite readable_view. unfold mv at 1. destruct s as [|len pad sum data]; cbn; [exact IH|].
    destruct (len <=? MetaDataSize)%N; cbn; [exact IH|reflexivity].
  Qed.

  Lemma first_meta_none disk : first_meta (map mv disk) = None -> forallb (fun s => negb (readable s)) disk = true.
  Proof.
    induction disk as [|s r IH]; cbn [map first_meta forallb]; [reflexivity|]. rewrite readable_view. unfold mv at 1.
    destruct (view s); cbn; [discriminate|exact IH].
  Qed.

  Lemma all_nil_sv disk : all_nil (map sv disk) = forallb (fun s => negb (readable s)) disk.
  Proof.
    unfold all_nil. induction disk as [|s r IH]; cbn [map forallb]; [reflexivity|]. rewrite IH, readable_view. unfold sv.
    destruct (view s); reflexivity.
  Qed.

  Lemma Lc_nz : (dlen Lc DGood =? 0)%N = false.
  Proof. cbn. pose proof (perShard_pos d size Hd Hsize). apply N.eqb_neq. lia. Qed.

  Lemma intact_kept s : intact s = true -> kept1 s = Some DGood /\ sv s = Some DGood.
  Proof.
    destruct s as [|len pad sum data]; cbn; [discriminate|]. intros H.
    apply andb_prop in H as [H Hg]. apply andb_prop in H as [H Hs]. apply andb_prop in H as [Hl Hp].
    destruct data; try discriminate. apply N.ltb_lt in Hl. apply N.eqb_eq in Hs.
    unfold kept1, sv, mv, view. destruct (len <=? MetaDataSize)%N eqn:E; [apply N.leb_le in E; lia|].
    cbn [option_map fst snd keep_shard]. fold (L d size). unfold L. rewrite Lc_nz. subst sum. rewrite N.eqb_refl. split; reflexivity.
  Qed.

  Lemma kept1_sv s x : kept1 s = Some x -> sv s = Some x.
  Proof.
    unfold kept1, sv, mv. destruct (view s) as [[[pad sum] data]|]; cbn; [|discriminate].
    destruct (dlen _ data =? 0)%N; [discriminate|]. destruct (md5 data =? sum)%N; [|discriminate]. now intros [= <-].
  Qed.

  Lemma kept1_good disk s x : md5_detects md5 disk -> In s disk -> kept1 s = Some x -> x = DGood.
  Proof.
    intros Hm Hin. unfold kept1, sv, mv. destruct s as [|len pad sum data]; cbn; [discriminate|].
    destruct (len <=? MetaDataSize)%N eqn:E; cbn; [discriminate|]. apply N.leb_gt in E.
    destruct (dlen _ data =? 0)%N; [discriminate|]. destruct (md5 data =? sum)%N eqn:Es; [|discriminate].
    intros [= <-]. apply N.eqb_eq in Es. apply (Hm len pad sum data Hin E). now symmetry.
  Qed.

  Lemma sv_notgood_damaged s : negb (good_opt (sv s)) = true -> negb (intact s) = true.
  Proof.
    intros H. destruct (intact s) eqn:E; [|reflexivity]. destruct (intact_kept s E) as [_ Hs]. rewrite Hs in H. discriminate.
  Qed.

  (* the part of Decode after the shards have been verified / rebuilt *)
  Definition finish (metas : list (option meta)) (sh : list (option sdata)) (idx : list nat) : res (list sdata * N * list nat) :=
    bind (go_index sh 0) (fun s0 =>
      match join d sh with
      | None => Err EJoin
      | Some joined =>
        let blen := (match s0 with Some x => dlen Lc x | None => 0 end * N.of_nat d)%N in
        match first_meta metas with
        | None => Err ENoMeta
        | Some (pad, _) =>
          if (N.of_nat d <=? pad)%N || (blen <? pad)%N then Err EPad
          else bind (go_make blen pad) (fun _ => Ok (joined, pad, idx))
        end
      end).

  Lemma decode_unfold shards metas : shards <> [] ->
    decode shards metas =
    bind (if rs_verify shards then Ok (shards, []) else detectBad shards metas) (fun '(sh, idx) => finish metas sh idx).
  Proof. destruct shards; [congruence|reflexivity]. Qed.

  Lemma finish_no_panic metas sh idx : sh <> [] -> finish metas sh idx <> Panic.
  Proof.
    intros Hne. unfold finish, go_index. destruct sh as [|s0 r]; [congruence|]. cbn [nth_error bind].
    destruct (join d (s0 :: r)); [|discriminate]. destruct (first_meta metas) as [[pad sum]|]; [|discriminate].
    destruct (N.of_nat d <=? pad)%N; cbn [orb]; [discriminate|].
    destruct (_ <? pad)%N eqn:E; [discriminate|]. unfold go_make. rewrite E. cbn. discriminate.
  Qed.

  Lemma finish_good metas idx pad sum :
    first_meta metas = Some (pad, sum) ->
    finish metas (repeat (Some DGood) n) idx =
      if (N.of_nat d <=? pad)%N then Err EPad else Ok (repeat DGood d, pad, idx).
  Proof.
    intros Hm. unfold finish, go_index. destruct n as [|m] eqn:En; [lia|]. cbn [repeat nth_error bind].
    change (Some DGood :: repeat (Some DGood) m) with (repeat (Some DGood) (S m)). rewrite join_repeat by lia.
    rewrite Hm. cbn [dlen]. destruct (N.of_nat d <=? pad)%N eqn:E; cbn [orb]; [reflexivity|].
    apply N.leb_gt in E. pose proof (perShard_pos d size Hd Hsize) as HL.
    assert (Hlt : (Lc * N.of_nat d <? pad)%N = false) by (apply N.ltb_ge; nia).
    rewrite Hlt. unfold go_make. rewrite Hlt. reflexivity.
  Qed.

  (* ---------------- getOne in terms of the disk *)
  Definition kept (disk : list dshard) : list (option sdata) := map kept1 disk.

  Lemma getOne_unfold rep wf disk :
    forallb (fun s => negb (readable s)) disk = false ->
    fst (getOne rep wf disk) =
      match decode (map sv disk) (map mv disk) with
      | Ok (j, pad, _) => Ok (j, pad) | Err e => Err e | Panic => Panic end.
  Proof.
    intros Hr. unfold EC.getOne. rewrite mapM_read. rewrite !map_map.
    change (map (fun x => option_map snd (view x)) disk) with (map sv disk).
    change (map (fun x => option_map fst (view x)) disk) with (map mv disk).
    rewrite all_nil_sv, Hr. destruct (decode _ _) as [[[j pad] idx]| |]; reflexivity.
  Qed.

  Lemma detectBad_unfold disk :
    detectBad (map sv disk) (map mv disk) =
    match nil_positions 0 (kept disk) with
    | [] => Err EChecksumsPass
    | bad => match rs_reconstruct (kept disk) with
             | None => Err EReconstruct
             | Some rebuilt => if rs_verify rebuilt then Ok (rebuilt, bad) else Err EVerify
             end
    end.
  Proof.
    unfold detectBadShardsThenReconstruct. rewrite combine_map_same. rewrite map_map.
    change (map (fun x => keep (sv x, mv x)) disk) with (kept disk).
    destruct (nil_positions 0 (kept disk)); reflexivity.
  Qed.

  Lemma kept_all_some_eq disk : (forall o, In o (kept disk) -> exists x, o = Some x) -> kept disk = map sv disk.
  Proof.
    unfold kept. induction disk as [|s r IH]; intros H; cbn [map]; [reflexivity|].
    destruct (H (kept1 s) (or_introl eq_refl)) as [x Hx]. rewrite (kept1_sv _ _ Hx), Hx. f_equal.
    apply IH. intros o Ho. apply H. now right.
  Qed.

  Lemma count_present_kept disk : length (filter intact disk) <= count_present (kept disk).
  Proof.
    unfold count_present, kept. rewrite filter_map_length. apply filter_length_impl.
    intros s _ Hi. destruct (intact_kept s Hi) as [-> _]. reflexivity.
  Qed.

  Lemma count_notgood_sv disk : count_notgood (map sv disk) <= damaged d size md5 disk.
  Proof.
    unfold count_notgood, damaged. rewrite filter_map_length. apply filter_length_impl.
    intros s _. apply sv_notgood_damaged.
  Qed.

  Lemma intact_count disk : length disk = n -> damaged d size md5 disk <= p -> d <= length (filter intact disk).
  Proof. intros Hl Hdm. unfold damaged in Hdm. pose proof (filter_negb_length intact disk). lia. Qed.

  Lemma some_readable disk : 1 <= length (filter intact disk) -> forallb (fun s => negb (readable s)) disk = false.
  Proof.
    induction disk as [|s r IH]; cbn; [lia|]. intros H. destruct (intact s) eqn:E.
    - destruct s as [|len pad sum data]; cbn in E; [discriminate|]. cbn.
      destruct (MetaDataSize <? len)%N; [reflexivity|discriminate].
    - rewrite IH by exact H. apply andb_false_r.
  Qed.

  Hypothesis HC : rs_contract d p rs_verify rs_reconstruct.

  Lemma kept_all_good disk : md5_detects md5 disk -> forall x, In (Some x) (kept disk) -> x = DGood.
  Proof.
    intros Hm x Hin. unfold kept in Hin. apply in_map_iff in Hin as [s [Hs Hin]]. exact (kept1_good disk s x Hm Hin Hs).
  Qed.

  (* slow path: the first Verify failed *)
  Lemma slow_path disk : length disk = n -> md5_detects md5 disk -> rs_verify (map sv disk) = false ->
    detectBad (map sv disk) (map mv disk) =
      if count_present (kept disk) <? d then Err EReconstruct
      else Ok (repeat (Some DGood) n, nil_positions 0 (kept disk)).
  Proof.
    intros Hl Hm Hv. rewrite detectBad_unfold.
    assert (Hlk : length (kept disk) = n) by (unfold kept; now rewrite map_length).
    destruct (nil_positions 0 (kept disk)) as [|b bs] eqn:Eb.
    - exfalso. pose proof (nil_positions_nil _ _ Eb) as Hall.
      rewrite <- (kept_all_some_eq disk Hall) in Hv.
      assert (Hk : kept disk = repeat (Some DGood) n).
      { rewrite <- Hlk. apply all_repeat. intros o Ho. destruct (Hall o Ho) as [x ->]. f_equal. exact (kept_all_good disk Hm x Ho). }
      rewrite Hk, (rs_V1 _ _ _ _ HC) in Hv. discriminate.
    - destruct (count_present (kept disk) <? d) eqn:Ec.
      + apply Nat.ltb_lt in Ec. now rewrite (rs_R1 _ _ _ _ HC _ Hlk Ec).
      + apply Nat.ltb_ge in Ec. rewrite (rs_R2 _ _ _ _ HC _ Hlk Ec (kept_all_good disk Hm)).
        now rewrite (rs_V1 _ _ _ _ HC).
  Qed.

  (* ---------------- C25_read *)
  Lemma read_ok rep wf disk :
    length disk = n -> damaged d size md5 disk <= p -> md5_detects md5 disk -> first_pad_intact d size disk ->
    fst (getOne rep wf disk) = Ok (original d size).
  Proof.
    intros Hl Hdm Hm Hpad.
    pose proof (intact_count disk Hl Hdm) as Hi.
    assert (Hr : forallb (fun s => negb (readable s)) disk = false) by (apply some_readable; lia).
    rewrite (getOne_unfold rep wf disk Hr).
    assert (Hne : map sv disk <> []) by (destruct disk; [cbn in Hl; lia|discriminate]).
    rewrite (decode_unfold _ _ Hne).
    (* the pad count used *)
    assert (Hfm : exists sum, first_meta (map mv disk) = Some (tp, sum)).
    { pose proof (first_meta_pad disk) as E. destruct (first_meta (map mv disk)) as [[pad sum]|] eqn:Ef.
      - cbn in E. exists sum. now rewrite (Hpad pad (eq_sym E)).
      - rewrite (first_meta_none disk Ef) in Hr. discriminate. }
    destruct Hfm as [sum Hfm].
    pose proof (truepad_lt d size Hd) as Htp.
    assert (Hfin : forall idx, finish (map mv disk) (repeat (Some DGood) n) idx = Ok (repeat DGood d, tp, idx)).
    { intros idx. rewrite (finish_good _ idx _ _ Hfm). destruct (N.of_nat d <=? tp)%N eqn:E; [apply N.leb_le in E; lia|reflexivity]. }
    destruct (rs_verify (map sv disk)) eqn:Hv.
    - assert (Hg : map sv disk = repeat (Some DGood) n).
      { apply (rs_V2 _ _ _ _ HC); [now rewrite map_length| |exact Hv]. pose proof (count_notgood_sv disk). lia. }
      cbn [bind]. rewrite Hg, Hfin. reflexivity.
    - rewrite (slow_path disk Hl Hm Hv).
      pose proof (count_present_kept disk) as Hc.
      destruct (count_present (kept disk) <? d) eqn:Ec; [apply Nat.ltb_lt in Ec; lia|].
      cbn [bind]. rewrite Hfin. reflexivity.
  Qed.

  (* ---------------- C25_no_panic *)
  Lemma no_panic rep wf disk : fst (getOne rep wf disk) <> Panic.
  Proof.
    destruct (forallb (fun s => negb (readable s)) disk) eqn:Hr.
    - unfold EC.getOne. rewrite mapM_read, !map_map.
      change (map (fun x => option_map snd (view x)) disk) with (map sv disk). rewrite all_nil_sv, Hr. discriminate.
    - rewrite (getOne_unfold rep wf disk Hr).
      assert (Hne : map sv disk <> []) by (destruct disk; [discriminate|discriminate]).
      rewrite (decode_unfold _ _ Hne).
      destruct (rs_verify (map sv disk)).
      + cbn [bind]. pose proof (finish_no_panic (map mv disk) (map sv disk) [] Hne) as Hf.
        destruct (finish _ _ _) as [[[j pad] idx]| |]; [discriminate|discriminate|congruence].
      + rewrite detectBad_unfold. destruct (nil_positions 0 (kept disk)) as [|b bs]; [discriminate|].
        destruct (rs_reconstruct (kept disk)) as [rebuilt|] eqn:Er; [|discriminate].
        destruct (rs_verify rebuilt); [|discriminate]. cbn [bind].
        assert (Hrn : rebuilt <> []).
        { pose proof (rs_R0 _ _ _ _ HC _ _ Er) as Hlen. unfold kept in Hlen. rewrite map_length in Hlen.
          destruct rebuilt; [destruct disk; [discriminate|discriminate]|discriminate]. }
        pose proof (finish_no_panic (map mv disk) rebuilt (b :: bs) Hrn) as Hf.
        destruct (finish _ _ _) as [[[j pad] idx]| |]; [discriminate|discriminate|congruence].
  Qed.

  (* ---------------- C25_excess: any amount of damage *)
  Lemma sv_good_not_dd s : sv s = Some DGood -> data_damaged s = false.
  Proof.
    unfold sv. destruct s as [|len pad sum data]; cbn; [discriminate|].
    destruct (len <=? MetaDataSize)%N; cbn; [discriminate|]. now intros [= ->].
  Qed.

  Lemma present_plus_dd disk : md5_detects md5 disk -> count_present (kept disk) + data_damaged_count disk <= length disk.
  Proof.
    intros Hm. unfold count_present, kept, data_damaged_count. rewrite filter_map_length.
    rewrite <- (filter_negb_length data_damaged disk).
    assert (length (filter (fun x => match kept1 x with Some _ => true | None => false end) disk)
            <= length (filter (fun x => negb (data_damaged x)) disk)); [|lia].
    apply filter_length_impl. intros s Hin Hk. destruct (kept1 s) as [x|] eqn:Ek; [|discriminate].
    rewrite (kept1_good disk s x Hm Hin Ek) in Ek. now rewrite (sv_good_not_dd s (kept1_sv _ _ Ek)).
  Qed.

  Lemma readable_first_meta disk : forallb (fun s => negb (readable s)) disk = false ->
    exists pad sum, first_meta (map mv disk) = Some (pad, sum) /\ first_readable_pad disk = Some pad.
  Proof.
    intros Hr. pose proof (first_meta_pad disk) as E. destruct (first_meta (map mv disk)) as [[pad sum]|] eqn:Ef.
    - exists pad, sum. split; [reflexivity|]. now rewrite <- E.
    - rewrite (first_meta_none disk Ef) in Hr. discriminate.
  Qed.

  Lemma read_safe rep wf disk j pad :
    length disk = n -> md5_detects md5 disk -> rs_verify_exact d p rs_verify ->
    fst (getOne rep wf disk) = Ok (j, pad) -> j = repeat DGood d /\ first_readable_pad disk = Some pad.
  Proof.
    intros Hl Hm Hx.
    destruct (forallb (fun s => negb (readable s)) disk) eqn:Hr.
    - unfold EC.getOne. rewrite mapM_read, !map_map.
      change (map (fun x => option_map snd (view x)) disk) with (map sv disk). rewrite all_nil_sv, Hr. discriminate.
    - rewrite (getOne_unfold rep wf disk Hr).
      assert (Hne : map sv disk <> []) by (destruct disk; [cbn in Hl; lia|discriminate]).
      rewrite (decode_unfold _ _ Hne).
      destruct (readable_first_meta disk Hr) as [pad0 [sum0 [Hfm Hfp]]].
      assert (Hfin : forall idx, match finish (map mv disk) (repeat (Some DGood) n) idx with
                                 | Ok (j', pad', _) => Ok (j', pad') | Err e => Err e | Panic => Panic end = Ok (j, pad) ->
                                 j = repeat DGood d /\ first_readable_pad disk = Some pad).
      { intros idx. rewrite (finish_good _ idx _ _ Hfm). destruct (N.of_nat d <=? pad0)%N; [discriminate|].
        intros [= <- <-]. split; [reflexivity|exact Hfp]. }
      destruct (rs_verify (map sv disk)) eqn:Hv.
      + cbn [bind]. rewrite (Hx _ Hv). apply Hfin.
      + rewrite (slow_path disk Hl Hm Hv). destruct (count_present (kept disk) <? d); [discriminate|].
        cbn [bind]. apply Hfin.
  Qed.

  Lemma excess_err rep wf disk :
    length disk = n -> md5_detects md5 disk -> rs_verify_exact d p rs_verify ->
    p < data_damaged_count disk -> exists e, fst (getOne rep wf disk) = Err e.
  Proof.
    intros Hl Hm Hx Hdd.
    destruct (forallb (fun s => negb (readable s)) disk) eqn:Hr.
    - exists EAllMissing. unfold EC.getOne. rewrite mapM_read, !map_map.
      change (map (fun x => option_map snd (view x)) disk) with (map sv disk). now rewrite all_nil_sv, Hr.
    - rewrite (getOne_unfold rep wf disk Hr).
      assert (Hne : map sv disk <> []) by (destruct disk; [cbn in Hl; lia|discriminate]).
      rewrite (decode_unfold _ _ Hne).
      destruct (rs_verify (map sv disk)) eqn:Hv.
      + exfalso. pose proof (Hx _ Hv) as Hg. unfold all_good in Hg.
        assert (H0 : data_damaged_count disk = 0).
        { unfold data_damaged_count. clear - Hg. revert Hg. generalize n as m. induction disk as [|s r IH]; intros m Hg; [reflexivity|].
          destruct m as [|m]; [discriminate|]. cbn in Hg. injection Hg as Hs Hr. cbn. rewrite (sv_good_not_dd s Hs). exact (IH m Hr). }
        lia.
      + rewrite (slow_path disk Hl Hm Hv). pose proof (present_plus_dd disk Hm) as Hc.
        destruct (count_present (kept disk) <? d) eqn:Ec; [now exists EReconstruct|].
        apply Nat.ltb_ge in Ec. lia.
  Qed.
End Read.

(* ------------------------------------------------------------------ the write path *)
Section Write.
  Variables (d p : nat) (size : N) (md5 : sdata -> N).
  Hypothesis Hd : 1 <= d.
  Hypothesis Hsize : (1 <= size)%N.
  Notation gf := (good_file d size md5).

  Lemma good_file_intact : intact d size md5 gf = true.
  Proof.
    unfold good_file, intact, L. pose proof (perShard_pos d size Hd Hsize).
    rewrite !N.eqb_refl. cbn [is_dgood]. rewrite !andb_true_r. apply N.ltb_lt. lia.
  Qed.

  Lemma add_ok_iff wf disk : fst (add d p size md5 wf disk) = Ok tt <-> count_fail (length disk) wf <= p.
  Proof.
    unfold add. destruct (size =? 0)%N eqn:E; [apply N.eqb_eq in E; lia|]. cbn [fst].
    destruct (p <? count_fail (length disk) wf) eqn:Ec.
    - apply Nat.ltb_lt in Ec. split; [discriminate|lia].
    - apply Nat.ltb_ge in Ec. split; [intros _; exact Ec|reflexivity].
  Qed.

  Lemma add_empty wf disk : fst (add d p 0 md5 wf disk) = Err EShortData /\ snd (add d p 0 md5 wf disk) = disk.
  Proof. split; reflexivity. Qed.

  Lemma write_all_length i wf disk : length (write_all d size md5 i wf disk) = length disk.
  Proof. revert i; induction disk as [|s r IH]; intros i; cbn; [reflexivity|now rewrite IH]. Qed.

  Lemma write_all_damaged i wf disk :
    damaged d size md5 (write_all d size md5 i wf disk) <= length (filter wf (seq i (length disk))).
  Proof.
    unfold damaged. revert i; induction disk as [|s r IH]; intros i; cbn [write_all length seq filter]; [lia|].
    specialize (IH (S i)). destruct (wf i) eqn:E; cbn [filter length].
    - destruct (negb (intact d size md5 s)); cbn [length]; lia.
    - rewrite good_file_intact. cbn [negb]. exact IH.
  Qed.

  Lemma write_all_fresh_in i wf k s : In s (write_all d size md5 i wf (repeat SMissing k)) -> s = SMissing \/ s = gf.
  Proof.
    revert i; induction k as [|k IH]; intros i; cbn; [tauto|]. intros [H|H].
    - destruct (wf i); [left|right]; now symmetry.
    - exact (IH _ H).
  Qed.

  Lemma fresh_md5_detects wf k : md5_detects md5 (write_all d size md5 0 wf (repeat SMissing k)).
  Proof.
    intros len pad sum data Hin _ _. destruct (write_all_fresh_in _ _ _ _ Hin) as [H|H]; [discriminate|].
    unfold good_file in H. now injection H as _ _ _ ->.
  Qed.

  Lemma good_file_readable : readable gf = true.
  Proof. unfold good_file, readable, L. pose proof (perShard_pos d size Hd Hsize). apply N.ltb_lt. lia. Qed.

  Lemma fresh_pad_intact wf k : first_pad_intact d size (write_all d size md5 0 wf (repeat SMissing k)).
  Proof.
    unfold first_pad_intact. generalize 0 as i. induction k as [|k IH]; intros i v; cbn [repeat write_all first_readable_pad]; [discriminate|].
    destruct (wf i).
    - cbn [readable]. apply IH.
    - rewrite good_file_readable. unfold good_file. now intros [= <-].
  Qed.
End Write.


(* Proofs about the EC model (EC.v): C25 read / no-panic / excess / write, C26 repair. *)
From Coq Require Import List NArith Bool Arith Lia.
From SopVerif Require Import EC.
Import ListNotations.

(* ------------------------------------------------------------------ generic list facts *)
Lemma combine_map_same {A B C} (f : A -> B) (g : A -> C) (l : list A) :
  combine (map f l) (map g l) = map (fun x => (f x, g x)) l.
Proof. induction l as [|x r IH]; cbn; [reflexivity|now rewrite IH]. Qed.

Lemma filter_length_le {A} (f : A -> bool) (l : list A) : length (filter f l) <= length l.
Proof. induction l as [|x r IH]; cbn; [lia|destruct (f x); cbn; lia]. Qed.

Lemma filter_negb_length {A} (f : A -> bool) (l : list A) :
  length (filter f l) + length (filter (fun x => negb (f x)) l) = length l.
Proof. induction l as [|x r IH]; cbn; [reflexivity|destruct (f x); cbn; lia]. Qed.

Lemma filter_length_impl {A} (f g : A -> bool) (l : list A) :
  (forall x, In x l -> f x = true -> g x = true) -> length (filter f l) <= length (filter g l).
Proof.
  induction l as [|x r IH]; intros H; cbn; [lia|].
  assert (Hr : length (filter f r) <= length (filter g r)) by (apply IH; intros y Hy; apply H; now right).
  destruct (f x) eqn:Hf.
  - rewrite (H x (or_introl eq_refl) Hf). cbn. lia.
  - destruct (g x); cbn; lia.
Qed.

Lemma filter_map_length {A B} (f : B -> bool) (g : A -> B) (l : list A) :
  length (filter f (map g l)) = length (filter (fun x => f (g x)) l).
Proof. induction l as [|x r IH]; cbn; [reflexivity|destruct (f (g x)); cbn; now rewrite IH]. Qed.

Lemma all_repeat {A} (a : A) (l : list A) : (forall x, In x l -> x = a) -> l = repeat a (length l).
Proof.
  induction l as [|x r IH]; intros H; cbn; [reflexivity|].
  rewrite (H x (or_introl eq_refl)). f_equal. apply IH. intros y Hy. apply H. now right.
Qed.

Lemma nil_positions_nil i ss : nil_positions i ss = [] -> forall o, In o ss -> exists x, o = Some x.
Proof.
  revert i; induction ss as [|o r IH]; intros i H o' Hin; [destruct Hin|].
  destruct o as [x|]; cbn in H; [|discriminate].
  destruct Hin as [<-|Hin]; [now exists x|exact (IH _ H _ Hin)].
Qed.

Lemma nil_positions_lt i ss k : In k (nil_positions i ss) -> i <= k < i + length ss /\ nth_error ss (k - i) = Some None.
Proof.
  revert i; induction ss as [|o r IH]; intros i H; [destruct H|].
  destruct o as [x|]; cbn in H.
  - destruct (IH _ H) as [Hr Hn]. split; [cbn; lia|]. replace (k - i) with (S (k - S i)) by lia. exact Hn.
  - destruct H as [<-|H].
    + split; [cbn; lia|]. now rewrite Nat.sub_diag.
    + destruct (IH _ H) as [Hr Hn]. split; [cbn; lia|]. replace (k - i) with (S (k - S i)) by lia. exact Hn.
Qed.

Lemma nil_positions_complete i ss k : nth_error ss k = Some None -> In (i + k) (nil_positions i ss).
Proof.
  revert i k; induction ss as [|o r IH]; intros i k H; [destruct k; discriminate|].
  destruct k as [|k]; cbn in H.
  - injection H as ->. cbn. left. lia.
  - specialize (IH (S i) k H). replace (i + S k) with (S i + k) by lia. destruct o; cbn; [exact IH|now right].
Qed.

Lemma join_repeat k m : k <= m -> join k (repeat (Some DGood) m) = Some (repeat DGood k).
Proof.
  revert m; induction k as [|k IH]; intros m H; [reflexivity|].
  destruct m as [|m]; [lia|]. cbn. rewrite IH by lia. reflexivity.
Qed.

Lemma join_good k ss j : join k ss = Some j -> (forall x, In (Some x) ss -> x = DGood) -> j = repeat DGood k.
Proof.
  revert ss j; induction k as [|k IH]; intros ss j H Hg; cbn in H; [now injection H as <-|].
  destruct ss as [|[x|] r]; try discriminate.
  destruct (join k r) as [j'|] eqn:Hj; [|discriminate]. cbn in H. injection H as <-.
  cbn. rewrite (Hg x (or_introl eq_refl)). f_equal. apply (IH r); [exact Hj|]. intros y Hy. apply Hg. now right.
Qed.

Lemma join_length k ss j : join k ss = Some j -> length j = k.
Proof.
  revert ss j; induction k as [|k IH]; intros ss j H; cbn in H; [now injection H as <-|].
  destruct ss as [|[x|] r]; try discriminate.
  destruct (join k r) as [j'|] eqn:Hj; [|discriminate]. cbn in H. injection H as <-. cbn. now rewrite (IH _ _ Hj).
Qed.

(* ------------------------------------------------------------------ geometry *)
Lemma perShard_pos d size : 1 <= d -> (1 <= size)%N -> (1 <= perShard d size)%N.
Proof.
  intros Hd Hs. unfold perShard. apply N.div_le_lower_bound; lia.
Qed.

Lemma truepad_lt d size : 1 <= d -> (truepad d size < N.of_nat d)%N.
Proof.
  intros Hd. unfold truepad. assert (HD : (N.of_nat d <> 0)%N) by lia.
  pose proof (N.mod_lt size (N.of_nat d) HD) as Hm. set (m := (size mod N.of_nat d)%N) in *. clearbody m.
  destruct (m =? 0)%N eqn:E; [lia|]. apply N.eqb_neq in E. lia.
Qed.

(* size = d * perShard - truepad: the stripped length is the blob length *)
Lemma truepad_exact d size : 1 <= d -> (perShard d size * N.of_nat d - truepad d size = size)%N /\ (truepad d size <= perShard d size * N.of_nat d)%N.
Proof.
  intros Hd. unfold perShard, truepad.
  set (D := N.of_nat d). assert (HD : (D <> 0)%N) by (unfold D; lia).
  pose proof (N.div_mod size D HD) as E. pose proof (N.mod_lt size D HD) as Hm.
  set (q := (size / D)%N) in *. set (m := (size mod D)%N) in *. clearbody q m.
  destruct (m =? 0)%N eqn:E0.
  - apply N.eqb_eq in E0. subst m.
    assert (Hq : ((size + D - 1) / D = q)%N).
    { symmetry. apply (N.div_unique (size + D - 1) D q (D - 1)); [lia|]. rewrite E. lia. }
    rewrite Hq. rewrite E. nia.
  - apply N.eqb_neq in E0.
    assert (Hq : ((size + D - 1) / D = q + 1)%N).
    { symmetry. apply (N.div_unique (size + D - 1) D (q + 1) (m - 1)); [lia|]. rewrite E. nia. }
    rewrite Hq. rewrite E. nia.
Qed.

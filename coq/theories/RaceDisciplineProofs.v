(* C36 — the lock discipline excludes data races: proofs. *)
From Coq Require Import List Arith Bool Lia String.
From SopVerif Require Import RaceDiscipline.
Import ListNotations.

(* ---------------------------------------------------------------- lock state along a trace *)

Lemma firstn_S_nth : forall (A : Type) (l : list A) n a,
  nth_error l n = Some a -> firstn (S n) l = firstn n l ++ [a].
Proof.
  intros A l. induction l as [|h t IH]; intros n a Hn.
  - destruct n; discriminate.
  - destruct n as [|n].
    + cbn in Hn. injection Hn as ->. reflexivity.
    + cbn in Hn. change (firstn (S (S n)) (h :: t)) with (h :: firstn (S n) t).
      rewrite (IH n a Hn). reflexivity.
Qed.

Lemma state_at_S : forall tr n ge, nth_error tr n = Some ge ->
  state_at tr (S n) = step (state_at tr n) ge.
Proof.
  intros tr n ge Hn. unfold state_at. rewrite (firstn_S_nth _ tr n ge Hn).
  rewrite fold_left_app. reflexivity.
Qed.

Lemma state_at_S_none : forall tr n, nth_error tr n = None -> state_at tr (S n) = state_at tr n.
Proof.
  intros tr n Hn. apply nth_error_None in Hn. unfold state_at.
  rewrite (firstn_all2 tr) by lia. rewrite (firstn_all2 tr) by lia. reflexivity.
Qed.

Lemma nth_error_lt_some : forall (A : Type) (l : list A) a j x, nth_error l j = Some x -> a < j ->
  exists y, nth_error l a = Some y.
Proof.
  intros A l a j x Hj Hlt. destruct (nth_error l a) eqn:Ha; [eauto|].
  apply nth_error_None in Ha. assert (Hs : nth_error l j <> None) by congruence.
  apply nth_error_Some in Hs. lia.
Qed.

(* discrete intermediate value: a boolean that changes between i and j changes at some step *)
Lemma first_change : forall (P : nat -> bool) i j, i <= j -> P i = false -> P j = true ->
  exists a, i <= a < j /\ P a = false /\ P (S a) = true.
Proof.
  intros P i j. induction j as [|j IH]; intros Hle Hi Hj.
  - assert (i = 0) by lia. subst. congruence.
  - destruct (Nat.eq_dec i (S j)) as [->|Hne]; [congruence|].
    destruct (P j) eqn:Hpj.
    + destruct (IH ltac:(lia) Hi eq_refl) as [a [Ha [H1 H2]]]. exists a. repeat split; try lia; assumption.
    + exists j. repeat split; try lia; assumption.
Qed.

Lemma first_change_down : forall (P : nat -> bool) i j, i <= j -> P i = true -> P j = false ->
  exists a, i <= a < j /\ P a = true /\ P (S a) = false.
Proof.
  intros P i j Hle Hi Hj.
  destruct (first_change (fun n => negb (P n)) i j Hle) as [a [Ha [H1 H2]]].
  - now rewrite Hi.
  - now rewrite Hj.
  - exists a. split; [exact Ha|]. split.
    + now apply negb_false_iff in H1.
    + now apply negb_true_iff in H2.
Qed.

(* ---------------------------------------------------------------- multiset helpers *)

Lemma memb_In : forall g l, memb g l = true <-> In g l.
Proof.
  intros g l. induction l as [|h t IH]; cbn.
  - split; [discriminate|tauto].
  - rewrite orb_true_iff, IH, Nat.eqb_eq. tauto.
Qed.

Lemma memb_remove_one_other : forall g g' l, g <> g' -> memb g (remove_one g' l) = memb g l.
Proof.
  intros g g' l Hne. induction l as [|h t IH]; cbn; [reflexivity|].
  destruct (Nat.eqb h g') eqn:Hh.
  - apply Nat.eqb_eq in Hh. subst h.
    destruct (Nat.eqb g' g) eqn:Hg; [apply Nat.eqb_eq in Hg; congruence|reflexivity].
  - cbn. now rewrite IH.
Qed.

Lemma memb_remove_one_sub : forall g g' l, memb g (remove_one g' l) = true -> memb g l = true.
Proof.
  intros g g' l. induction l as [|h t IH]; cbn; [tauto|].
  destruct (Nat.eqb h g') eqn:Hh.
  - intros H. rewrite H. apply orb_true_r.
  - cbn. rewrite !orb_true_iff. intros [H|H]; [now left|right; now apply IH].
Qed.

(* ---------------------------------------------------------------- what one step can change *)

Definition exb (s : lstate) (g : gid) (m : mutex) : bool := opt_gid_eqb (wrh s m) g.
Definition shb (s : lstate) (g : gid) (m : mutex) : bool := memb g (rdh s m).

Lemma exb_iff : forall s g m, exb s g m = true <-> wrh s m = Some g.
Proof.
  intros s g m. unfold exb, opt_gid_eqb. destruct (wrh s m) as [h|].
  - rewrite Nat.eqb_eq. split; [now intros ->|congruence].
  - split; discriminate.
Qed.

(* only Lock by g makes g the exclusive holder *)
Lemma step_gain_excl : forall s g' e g m,
  exb s g m = false -> exb (step s (g', e)) g m = true -> e = Acq m /\ g' = g.
Proof.
  intros s g' e g m H0 H1. unfold exb in *.
  destruct e as [m0|m0|m0|m0|y|y|h|h]; cbn in H1; try congruence.
  - unfold upd in H1. destruct (Nat.eqb m m0) eqn:Hm; [|congruence].
    apply Nat.eqb_eq in Hm. subst m0. cbn in H1. apply Nat.eqb_eq in H1. now subst.
  - unfold upd in H1. destruct (Nat.eqb m m0) eqn:Hm; [discriminate|congruence].
Qed.

(* only Unlock by the holder ends an exclusive hold *)
Lemma step_lose_excl : forall s g' e g m,
  ok_step s (g', e) = true ->
  exb s g m = true -> exb (step s (g', e)) g m = false -> e = Rel m /\ g' = g.
Proof.
  intros s g' e g m Hok H0 H1. pose proof (proj1 (exb_iff s g m) H0) as Hw. unfold exb in *.
  destruct e as [m0|m0|m0|m0|y|y|h|h]; cbn in H1; try congruence.
  - unfold upd in H1. destruct (Nat.eqb m m0) eqn:Hm; [|congruence].
    apply Nat.eqb_eq in Hm. subst m0. cbn in Hok. rewrite Hw in Hok. discriminate.
  - unfold upd in H1. destruct (Nat.eqb m m0) eqn:Hm; [|congruence].
    apply Nat.eqb_eq in Hm. subst m0. cbn in Hok. rewrite Hw in Hok. cbn in Hok.
    apply Nat.eqb_eq in Hok. now subst.
Qed.

(* only RLock by g makes g a read holder *)
Lemma step_gain_shared : forall s g' e g m,
  shb s g m = false -> shb (step s (g', e)) g m = true -> e = RAcq m /\ g' = g.
Proof.
  intros s g' e g m H0 H1. unfold shb in *.
  destruct e as [m0|m0|m0|m0|y|y|h|h]; cbn in H1; try congruence.
  - unfold upd in H1. destruct (Nat.eqb m m0) eqn:Hm; [|congruence].
    apply Nat.eqb_eq in Hm. subst m0. cbn in H1. rewrite H0, orb_false_r in H1.
    apply Nat.eqb_eq in H1. now subst.
  - unfold upd in H1. destruct (Nat.eqb m m0) eqn:Hm; [|congruence].
    apply Nat.eqb_eq in Hm. subst m0. apply memb_remove_one_sub in H1. congruence.
Qed.

(* only RUnlock by g can end all read holds of g *)
Lemma step_lose_shared : forall s g' e g m,
  shb s g m = true -> shb (step s (g', e)) g m = false -> e = RRel m /\ g' = g.
Proof.
  intros s g' e g m H0 H1. unfold shb in *.
  destruct e as [m0|m0|m0|m0|y|y|h|h]; cbn in H1; try congruence.
  - unfold upd in H1. destruct (Nat.eqb m m0) eqn:Hm; [|congruence].
    apply Nat.eqb_eq in Hm. subst m0. cbn in H1. rewrite H0, orb_true_r in H1. discriminate.
  - unfold upd in H1. destruct (Nat.eqb m m0) eqn:Hm; [|congruence].
    apply Nat.eqb_eq in Hm. subst m0.
    destruct (Nat.eq_dec g g') as [->|Hne]; [now split|].
    rewrite (memb_remove_one_other g g' _ Hne) in H1. congruence.
Qed.

(* invariant of mutex semantics: while a writer holds m nobody holds it for reading *)
Lemma excl_no_readers : forall tr, wf tr -> forall n m g,
  wrh (state_at tr n) m = Some g -> rdh (state_at tr n) m = [].
Proof.
  intros tr Hwf n. induction n as [|n IH]; intros m g Hw.
  - reflexivity.
  - destruct (nth_error tr n) as [[g' e]|] eqn:Hn.
    2:{ rewrite (state_at_S_none tr n Hn) in *. eapply IH; eauto. }
    pose proof (Hwf n _ Hn) as Hok.
    rewrite (state_at_S tr n _ Hn) in *. set (s := state_at tr n) in *.
    destruct e as [m0|m0|m0|m0|y|y|h|h]; cbn in Hw |- *; try (eapply IH; eauto; fail).
    + unfold upd in Hw. destruct (Nat.eqb m m0) eqn:Hm.
      * apply Nat.eqb_eq in Hm. subst m0. cbn in Hok. apply andb_true_iff in Hok as [_ Hnil].
        destruct (rdh s m); [reflexivity|discriminate].
      * eapply IH; eauto.
    + unfold upd in Hw. destruct (Nat.eqb m m0) eqn:Hm; [discriminate|]. eapply IH; eauto.
    + unfold upd. destruct (Nat.eqb m m0) eqn:Hm.
      * apply Nat.eqb_eq in Hm. subst m0. cbn in Hok. rewrite Hw in Hok. discriminate.
      * eapply IH; eauto.
    + unfold upd. destruct (Nat.eqb m m0) eqn:Hm.
      * apply Nat.eqb_eq in Hm. subst m0. cbn in Hok. rewrite (IH m g Hw) in Hok. discriminate.
      * eapply IH; eauto.
Qed.

(* ---------------------------------------------------------------- happens-before facts *)

Lemma edge_lt : forall tr i j, edge tr i j -> i < j.
Proof.
  intros tr i j H. unfold edge, edgeb in H. apply andb_true_iff in H as [H _].
  now apply Nat.ltb_lt in H.
Qed.

Lemma hb_lt : forall tr i j, hb tr i j -> i < j.
Proof.
  intros tr i j H. induction H as [i j He|i k j He _ IH].
  - eapply edge_lt; eauto.
  - apply edge_lt in He. lia.
Qed.

Lemma hb_trans : forall tr i k j, hb tr i k -> hb tr k j -> hb tr i j.
Proof.
  intros tr i k j H1 H2. induction H1 as [i k He|i k' k He _ IH].
  - eapply hb_cons; eauto.
  - eapply hb_cons; eauto.
Qed.

Lemma edge_po : forall tr i j g e1 e2, i < j ->
  nth_error tr i = Some (g, e1) -> nth_error tr j = Some (g, e2) -> edge tr i j.
Proof.
  intros tr i j g e1 e2 Hlt Hi Hj. unfold edge, edgeb. rewrite Hi, Hj.
  rewrite (proj2 (Nat.ltb_lt i j) Hlt), Nat.eqb_refl. reflexivity.
Qed.

Lemma edge_sync : forall tr i j g1 g2 e1 e2, i < j ->
  nth_error tr i = Some (g1, e1) -> nth_error tr j = Some (g2, e2) -> syncb e1 e2 = true -> edge tr i j.
Proof.
  intros tr i j g1 g2 e1 e2 Hlt Hi Hj Hs. unfold edge, edgeb. rewrite Hi, Hj, Hs.
  rewrite (proj2 (Nat.ltb_lt i j) Hlt). cbn. now rewrite orb_true_r.
Qed.

(* ---------------------------------------------------------------- the two ordering lemmas *)

(* gi holds m exclusively at i; a different goroutine holds m (either way) at a later j:
   then gi unlocked and gj locked in between, so i happens before j *)
Lemma excl_then_held_hb : forall tr m i j gi gj ei ej,
  wf tr -> i < j ->
  nth_error tr i = Some (gi, ei) -> nth_error tr j = Some (gj, ej) -> gi <> gj ->
  (forall m', ei <> Rel m') ->
  wrh (state_at tr i) m = Some gi ->
  (wrh (state_at tr j) m = Some gj \/ In gj (rdh (state_at tr j) m)) ->
  hb tr i j.
Proof.
  intros tr m i j gi gj ei ej Hwf Hlt Hi Hj Hne HnotRel Hwi Hheld.
  set (P := fun n => exb (state_at tr n) gj m || shb (state_at tr n) gj m).
  assert (HPi : P i = false).
  { unfold P, exb, shb. rewrite Hwi, (excl_no_readers tr Hwf i m gi Hwi). cbn.
    destruct (Nat.eqb gi gj) eqn:E; [apply Nat.eqb_eq in E; congruence|reflexivity]. }
  assert (HPj : P j = true).
  { unfold P. apply orb_true_iff. destruct Hheld as [H|H].
    - left. now apply exb_iff.
    - right. unfold shb. now apply memb_In. }
  destruct (first_change P i j ltac:(lia) HPi HPj) as [a [Ha [HPa HPSa]]].
  destruct (nth_error_lt_some _ tr a j _ Hj ltac:(lia)) as [[ga ea] Hna].
  pose proof (Hwf a _ Hna) as Hoka.
  unfold P in HPa, HPSa. rewrite (state_at_S tr a _ Hna) in HPSa.
  apply orb_false_iff in HPa as [HPa1 HPa2].
  (* the step at a is the acquisition by gj; so nobody holds m exclusively at a *)
  assert (Hacq : ga = gj /\ (ea = Acq m \/ ea = RAcq m) /\ wrh (state_at tr a) m = None).
  { apply orb_true_iff in HPSa as [H|H].
    - destruct (step_gain_excl _ _ _ _ _ HPa1 H) as [-> ->]. split; [reflexivity|]. split; [now left|].
      cbn in Hoka. apply andb_true_iff in Hoka as [Hn _]. destruct (wrh (state_at tr a) m); [discriminate|reflexivity].
    - destruct (step_gain_shared _ _ _ _ _ HPa2 H) as [-> ->]. split; [reflexivity|]. split; [now right|].
      cbn in Hoka. destruct (wrh (state_at tr a) m); [discriminate|reflexivity]. }
  destruct Hacq as [-> [Hea Hnone]].
  (* gi's exclusive hold ended between i and a *)
  set (Q := fun n => exb (state_at tr n) gi m).
  assert (HQi : Q i = true) by (unfold Q; now apply exb_iff).
  assert (HQa : Q a = false) by (unfold Q, exb; now rewrite Hnone).
  destruct (first_change_down Q i a ltac:(lia) HQi HQa) as [r [Hr [HQr HQSr]]].
  destruct (nth_error_lt_some _ tr r j _ Hj ltac:(lia)) as [[gr er] Hnr].
  unfold Q in HQr, HQSr. rewrite (state_at_S tr r _ Hnr) in HQSr.
  destruct (step_lose_excl _ _ _ _ _ (Hwf r _ Hnr) HQr HQSr) as [-> ->].
  assert (Hir : i < r).
  { destruct (Nat.eq_dec i r) as [->|]; [|lia]. rewrite Hi in Hnr. injection Hnr as ->. now elim (HnotRel m). }
  eapply hb_cons; [eapply edge_po; [exact Hir|exact Hi|exact Hnr]|].
  eapply hb_cons; [eapply edge_sync; [|exact Hnr|exact Hna|]|].
  - lia.
  - destruct Hea as [->| ->]; cbn; apply Nat.eqb_refl.
  - apply hb_edge. eapply edge_po; [|exact Hna|exact Hj]. lia.
Qed.

(* gi holds m for reading at i; a different goroutine holds m exclusively at a later j *)
Lemma shared_then_excl_hb : forall tr m i j gi gj ei ej,
  wf tr -> i < j ->
  nth_error tr i = Some (gi, ei) -> nth_error tr j = Some (gj, ej) -> gi <> gj ->
  (forall m', ei <> RRel m') ->
  In gi (rdh (state_at tr i) m) ->
  wrh (state_at tr j) m = Some gj ->
  hb tr i j.
Proof.
  intros tr m i j gi gj ei ej Hwf Hlt Hi Hj Hne HnotRRel Hri Hwj.
  set (P := fun n => exb (state_at tr n) gj m).
  assert (HPi : P i = false).
  { unfold P. destruct (exb (state_at tr i) gj m) eqn:E; [|reflexivity].
    apply exb_iff in E. rewrite (excl_no_readers tr Hwf i m gj E) in Hri. destruct Hri. }
  assert (HPj : P j = true) by (unfold P; now apply exb_iff).
  destruct (first_change P i j ltac:(lia) HPi HPj) as [a [Ha [HPa HPSa]]].
  destruct (nth_error_lt_some _ tr a j _ Hj ltac:(lia)) as [[ga ea] Hna].
  pose proof (Hwf a _ Hna) as Hoka.
  unfold P in HPa, HPSa. rewrite (state_at_S tr a _ Hna) in HPSa.
  destruct (step_gain_excl _ _ _ _ _ HPa HPSa) as [-> ->].
  cbn in Hoka. apply andb_true_iff in Hoka as [_ Hnil].
  set (Q := fun n => shb (state_at tr n) gi m).
  assert (HQi : Q i = true) by (unfold Q, shb; now apply memb_In).
  assert (HQa : Q a = false).
  { unfold Q, shb. destruct (rdh (state_at tr a) m); [reflexivity|discriminate]. }
  destruct (first_change_down Q i a ltac:(lia) HQi HQa) as [r [Hr [HQr HQSr]]].
  destruct (nth_error_lt_some _ tr r j _ Hj ltac:(lia)) as [[gr er] Hnr].
  unfold Q in HQr, HQSr. rewrite (state_at_S tr r _ Hnr) in HQSr.
  destruct (step_lose_shared _ _ _ _ _ HQr HQSr) as [-> ->].
  assert (Hir : i < r).
  { destruct (Nat.eq_dec i r) as [->|]; [|lia]. rewrite Hi in Hnr. injection Hnr as ->. now elim (HnotRRel m). }
  eapply hb_cons; [eapply edge_po; [exact Hir|exact Hi|exact Hnr]|].
  eapply hb_cons; [eapply edge_sync; [|exact Hnr|exact Hna|]|].
  - lia.
  - cbn. apply Nat.eqb_refl.
  - apply hb_edge. eapply edge_po; [|exact Hna|exact Hj]. lia.
Qed.

(* ---------------------------------------------------------------- soundness of the discipline *)

Lemma access_not_rel : forall e x, accessesb e x = true ->
  (forall m, e <> Rel m) /\ (forall m, e <> RRel m).
Proof. intros e x H. destruct e; cbn in H; try discriminate; split; intros; discriminate. Qed.

Lemma conflict_sym : forall tr x i j, conflict tr x i j -> conflict tr x j i.
Proof.
  intros tr x i j (gi & ei & gj & ej & Hi & Hj & Hne & Hai & Haj & Hw).
  exists gj, ej, gi, ei. repeat split; auto. tauto.
Qed.

Lemma conflict_hb : forall tr x m i j, wf tr -> disciplined tr x m ->
  conflict tr x i j -> i < j -> hb tr i j.
Proof.
  intros tr x m i j Hwf Hd (gi & ei & gj & ej & Hi & Hj & Hne & Hai & Haj & Hw) Hlt.
  destruct (access_not_rel ei x Hai) as [HnR HnRR].
  pose proof (Hd i gi ei Hi Hai) as Di. pose proof (Hd j gj ej Hj Haj) as Dj.
  unfold holds_excl, holds_shared in Di, Dj.
  destruct Di as [Ei|[Wi Si]].
  - eapply (excl_then_held_hb tr m i j gi gj ei ej); eauto.
    destruct Dj as [Ej|[_ Sj]]; [now left|now right].
  - destruct Dj as [Ej|[Wj Sj]].
    + eapply (shared_then_excl_hb tr m i j gi gj ei ej); eauto.
    + destruct Hw; congruence.
Qed.

Theorem discipline_sound : forall tr x m, wf tr -> disciplined tr x m -> ~ race tr x.
Proof.
  intros tr x m Hwf Hd (i & j & Hne & Hc & Hnij & Hnji).
  destruct (Nat.lt_ge_cases i j) as [Hlt|Hge].
  - apply Hnij. eapply conflict_hb; eauto.
  - apply Hnji. eapply conflict_hb; eauto; [now apply conflict_sym|lia].
Qed.

(* ---------------------------------------------------------------- boolean checkers are sound *)

Lemma wfb_from_sound : forall tr s, wfb_from s tr = true ->
  forall n ge, nth_error tr n = Some ge -> ok_step (fold_left step (firstn n tr) s) ge = true.
Proof.
  induction tr as [|h t IH]; intros s H n ge Hn.
  - destruct n; discriminate.
  - cbn in H. apply andb_true_iff in H as [H1 H2]. destruct n as [|n].
    + cbn in Hn. injection Hn as <-. exact H1.
    + cbn in Hn |- *. eapply IH; eauto.
Qed.

Lemma wfb_sound : forall tr, wfb tr = true -> wf tr.
Proof. intros tr H n ge Hn. unfold state_at. eapply wfb_from_sound; eauto. Qed.

Lemma disciplinedb_from_sound : forall tr s x m, disciplinedb_from s tr x m = true ->
  forall n g e, nth_error tr n = Some (g, e) -> access_okb (fold_left step (firstn n tr) s) g e x m = true.
Proof.
  induction tr as [|[g0 e0] t IH]; intros s x m H n g e Hn.
  - destruct n; discriminate.
  - cbn in H. apply andb_true_iff in H as [H1 H2]. destruct n as [|n].
    + cbn in Hn. injection Hn as <- <-. exact H1.
    + cbn in Hn |- *. eapply IH; eauto.
Qed.

Lemma disciplinedb_sound : forall tr x m, disciplinedb tr x m = true -> disciplined tr x m.
Proof.
  intros tr x m H n g e Hn Ha.
  pose proof (disciplinedb_from_sound tr linit x m H n g e Hn) as Hok.
  fold (state_at tr n) in Hok. unfold access_okb in Hok. rewrite Ha in Hok. cbn in Hok.
  apply orb_true_iff in Hok as [Hok|Hok].
  - left. now apply exb_iff.
  - right. apply andb_true_iff in Hok as [Hk Hs]. split.
    + now apply negb_true_iff in Hk.
    + now apply memb_In.
Qed.

(* reachb decides hb *)
Lemma reachb_complete : forall tr fuel i j, hb tr i j -> j - i <= fuel -> reachb tr fuel i j = true.
Proof.
  intros tr fuel. induction fuel as [|f IH]; intros i j H Hle.
  - apply hb_lt in H. lia.
  - cbn [reachb]. destruct H as [i j He|i k j He Hkj].
    + unfold edge in He. now rewrite He.
    + apply orb_true_iff. right. apply existsb_exists. exists k.
      pose proof (edge_lt _ _ _ He) as H1. pose proof (hb_lt _ _ _ Hkj) as H2. split.
      * apply in_seq. lia.
      * unfold edge in He. rewrite He. cbn. apply IH; [exact Hkj|lia].
Qed.

Lemma reachb_sound : forall tr fuel i j, reachb tr fuel i j = true -> hb tr i j.
Proof.
  intros tr fuel. induction fuel as [|f IH]; intros i j H; [discriminate|].
  cbn [reachb] in H. apply orb_true_iff in H as [H|H].
  - now apply hb_edge.
  - apply existsb_exists in H as [k [_ Hk]]. apply andb_true_iff in Hk as [H1 H2].
    eapply hb_cons; [exact H1|]. now apply IH.
Qed.

Lemma hbb_iff : forall tr i j, hbb tr i j = true <-> hb tr i j.
Proof.
  intros tr i j. split.
  - apply reachb_sound.
  - intros H. apply reachb_complete; [exact H|lia].
Qed.

Lemma conflictb_sound : forall tr x i j, conflictb tr x i j = true -> conflict tr x i j.
Proof.
  intros tr x i j H. unfold conflictb in H.
  destruct (nth_error tr i) as [[gi ei]|] eqn:Hi; [|discriminate].
  destruct (nth_error tr j) as [[gj ej]|] eqn:Hj; [|discriminate].
  repeat (apply andb_true_iff in H as [H ?]).
  exists gi, ei, gj, ej. repeat split; auto.
  - apply negb_true_iff in H. intros ->. now rewrite Nat.eqb_refl in H.
  - now apply orb_true_iff.
Qed.

Lemma raceb_sound : forall tr x, raceb tr x = true -> race tr x.
Proof.
  intros tr x H. unfold raceb in H.
  apply existsb_exists in H as [i [_ H]]. apply existsb_exists in H as [j [_ H]].
  apply andb_true_iff in H as [H Hnhb]. apply andb_true_iff in H as [Hlt Hc].
  apply Nat.ltb_lt in Hlt. exists i, j. split; [lia|]. split; [now apply conflictb_sound|]. split.
  - intros Hh. apply hbb_iff in Hh. rewrite Hh in Hnhb. discriminate.
  - intros Hh. apply hb_lt in Hh. lia.
Qed.

(* ---------------------------------------------------------------- site tables *)

Lemma guarded_except_filter : forall g bl sites, guarded_except g bl sites = true ->
  forallb (guarded g) (filter (fun s => negb (in_sigs bl s)) sites) = true.
Proof.
  intros g bl sites H. apply forallb_forall. intros s Hs. apply filter_In in Hs as [Hin Hnb].
  unfold guarded_except in H. rewrite forallb_forall in H. specialize (H s Hin).
  apply negb_true_iff in Hnb. now rewrite Hnb in H.
Qed.

(* a table whose sites are all guarded by g, realised by an execution, gives the discipline *)
Lemma table_disciplined : forall mu_of g sites tr x,
  forallb (guarded g) sites = true -> realises mu_of sites tr x -> disciplined tr x (mu_of g).
Proof.
  intros mu_of g sites tr x Hall Hre n gi e Hn Ha.
  destruct (Hre n gi e Hn Ha) as (s & Hin & Hk & Hheld).
  rewrite forallb_forall in Hall. specialize (Hall s Hin). unfold guarded in Hall.
  apply existsb_exists in Hall as [[l md] [Hlin Hl]]. cbn in Hl.
  apply andb_true_iff in Hl as [Hname Hcov]. apply String.eqb_eq in Hname. subst l.
  specialize (Hheld g md Hlin). destruct md.
  - now left.
  - right. split; [|exact Hheld].
    destruct (is_writeb e) eqn:Hw; [|reflexivity].
    rewrite (Hk eq_refl) in Hcov. discriminate.
Qed.

Theorem table_sound : forall mu_of g sites tr x,
  wf tr -> forallb (guarded g) sites = true -> realises mu_of sites tr x -> ~ race tr x.
Proof.
  intros mu_of g sites tr x Hwf Hall Hre.
  eapply discipline_sound; [exact Hwf|]. eapply table_disciplined; eauto.
Qed.

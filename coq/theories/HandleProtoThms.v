(* Proofs about HandleProto, part 7: the statements of C37 derived from the invariant. *)
From Coq Require Import List ZArith NArith Bool Lia PeanoNat.
From SopVerif Require Import Proto ProtoProofs HandleProto HandleProtoProofs HandleProtoInv HandleProtoInv2 HandleProtoInv3 HandleProtoInv4 HandleProtoInv5.
Import ListNotations.
Local Open Scope N_scope.

(* history is most recent first: e1 is the older install *)
Theorem single_successor_thm s0 s : wf_init s0 -> reachable strict s0 s ->
  forall post e2 mid e1 pre i j l v,
    shist s = post ++ e2 :: mid ++ e1 :: pre -> succ_of e1 = Some (i, l, v) -> succ_of e2 = Some (j, l, v) ->
    exists c, In (EUndo c l) mid.
Proof.
  intros W R post e2 mid e1 pre i j l v Hh H1 H2.
  pose proof (hist_ok_between _ (i_hok _ (inv_reachable _ _ W R)) _ _ _ _ _ _ _ _ _ Hh H1 H2) as E.
  apply existsb_exists in E. destruct E as (e & Hin & He). destruct e; cbn [is_undo_of] in He; try discriminate.
  apply N.eqb_eq in He. subst. eauto.
Qed.

(* two live transactions inside the locked part of their commit never share a node; a live transaction that has
   claimed a node and not yet flipped it holds the node's lock, and the registered version is the one it read *)
Theorem claim_exclusive_thm s0 s : wf_init s0 -> reachable strict s0 s ->
  (forall i j ti tj l, get_tx s i = Some ti -> get_tx s j = Some tj ->
     t_crashed ti = false -> hold_pc (t_pc ti) = true -> In l (upd_lids ti) ->
     t_crashed tj = false -> hold_pc (t_pc tj) = true -> In l (upd_lids tj) -> i = j)
  /\ (forall i t c, get_tx s i = Some t -> t_crashed t = false -> img_pc (t_pc t) = true -> In c (t_claimed t) ->
        lock_of (slocks s) (lid c) = Some i
        /\ exists h0, lookup (sreg s) (lid c) = Some h0 /\ ver h0 = ver c).
Proof.
  intros W R. pose proof (inv_reachable _ _ W R) as I. split.
  - intros. eapply holder_unique; eassumption.
  - intros i t c Hg Hc Hi Hin. pose proof (i_tx _ I _ _ Hg) as O.
    destruct (o_pres _ _ _ O Hc (img_hold _ Hi) c Hin) as (Hl & h0 & Hlk).
    split; [exact (o_lock _ _ _ O Hc (img_hold _ Hi) _ Hl)|].
    exists h0. split; [exact Hlk|exact (o_img _ _ _ O Hc Hi c h0 Hin Hlk)].
Qed.

(* how one step can change the registered version of a node *)
Theorem version_step_thm s0 s lab s' l h h' : wf_init s0 -> reachable strict s0 s -> step strict s lab = Some s' ->
  lookup (sreg s) l = Some h -> lookup (sreg s') l = Some h' ->
  ver h' = ver h
  \/ (ver h' = (ver h + 1)%Z /\ exists i, lab = LWrite i /\ (exists p, shist s' = EInstall i l (ver h) p :: shist s) )
  \/ (ver h' = (ver h + 1)%Z /\ exists i, lab = LWrite i /\ shist s' = ERemove i l (ver h) :: shist s)
  \/ (exists c rest, shist s' = rest ++ shist s /\ In (EUndo c l) rest).
Proof.
  intros W R Hs Hl Hl'. pose proof (inv_reachable _ _ W R) as I.
  assert (SAME : sreg s' = sreg s -> ver h' = ver h) by (intros E; rewrite E, Hl in Hl'; inversion Hl'; reflexivity).
  destruct lab; cbn [step] in Hs.
  all: try (destruct (get_tx s i) as [t|] eqn:Et; [|discriminate]).
  - destruct (_ && _); [|discriminate]. inversion Hs; subst s'. left. apply SAME. reflexivity.
  - destruct (_ && _); [|discriminate]. destruct (claims _ _); inversion Hs; subst s'; left; apply SAME; reflexivity.
  - destruct (live t) eqn:Hlv; [|discriminate]. live_pc. destruct (t_pend t) as [|[k g] r] eqn:Ep; [discriminate|]. inversion Hs; subst s'. clear Hs.
    cbn [sreg shist] in *. rewrite lookup_reg_set in Hl'.
    destruct (N.eqb_spec (lid g) l) as [<-|Hn]; [|left; rewrite Hl in Hl'; inversion Hl'; reflexivity].
    inversion Hl'; subst h'.
    destruct (o_pend _ _ _ (i_tx _ I _ _ Et) Hlv k g) as (_ & _ & h0 & Hlk & Hd); [rewrite Ep; left; reflexivity|].
    rewrite Hl in Hlk. inversion Hlk; subst h0.
    destruct k; cbn [delta_ok ev_of app] in *.
    + left. exact Hd.
    + left. exact Hd.
    + right. left. split; [exact Hd|]. exists i. split; [reflexivity|]. exists (active g). rewrite Hd. f_equal. f_equal. lia.
    + right. right. left. split; [exact Hd|]. exists i. split; [reflexivity|]. rewrite Hd. f_equal. f_equal. lia.
    + left. exact Hd.
    + right. right. right. exists i, [EUndo i (lid g)]. split; [reflexivity|left; reflexivity].
  - destruct (_ && _); [|discriminate]. inversion Hs; subst s'. left. apply SAME. reflexivity.
  - destruct (_ && _); [|discriminate]. destruct (_ && _); [discriminate|].
    destruct (marks _ _); inversion Hs; subst s'; left; apply SAME; [reflexivity|].
    unfold start_rollback. destruct (undo_batch _ _ _). reflexivity.
  - destruct (_ && _); [|discriminate]. inversion Hs; subst s'. left. apply SAME. reflexivity.
  - destruct (_ && _); [|discriminate].
    destruct (all_own _ _ _); [inversion Hs; subst s'; left; apply SAME; reflexivity|].
    destruct (free_or_own _ _ _); inversion Hs; subst s'; left; apply SAME; [reflexivity|].
    unfold start_rollback. destruct (undo_batch _ _ _). reflexivity.
  - destruct (_ && _); [|discriminate]. inversion Hs; subst s'. left. apply SAME. reflexivity.
  - destruct (_ && _); [|discriminate]. inversion Hs; subst s'. left. apply SAME. reflexivity.
  - destruct (live t && pc_eqb (t_pc t) PInstalled); [inversion Hs; subst s'; left; apply SAME; reflexivity|].
    destruct (_ && _); [|discriminate]. inversion Hs; subst s'. left. apply SAME. reflexivity.
  - destruct (_ && _); [|discriminate]. inversion Hs; subst s'. left. apply SAME. reflexivity.
  - destruct (_ && _); [|discriminate]. inversion Hs; subst s'. left. apply SAME. cbn [sreg].
    rewrite (proj2 (o_norem _ _ _ (i_tx _ I _ _ Et))). reflexivity.
  - destruct (live t); [|discriminate]. left. apply SAME.
    destruct (t_pc t); try discriminate; try (inversion Hs; subst s'; reflexivity);
      try (inversion Hs; subst s'; unfold start_rollback; destruct (undo_batch _ _ _); reflexivity).
    destruct (nonempty _); [discriminate|]. inversion Hs; subst s'; unfold start_rollback; destruct (undo_batch _ _ _); reflexivity.
  - destruct (_ && _); [|discriminate]. inversion Hs; subst s'. left. apply SAME. reflexivity.
  - destruct (lock_of _ _); [|discriminate]. destruct (_ || _); [|discriminate]. inversion Hs; subst s'. left. apply SAME. reflexivity.
  - destruct (lookup (sreg s) l0) as [h1|] eqn:El0; [|discriminate]. destruct (_ && _); [|discriminate]. inversion Hs; subst s'. clear Hs.
    cbn [sreg] in Hl'. rewrite lookup_reg_set in Hl'. cbn [lid] in Hl'. destruct (lookup_In _ _ _ El0) as [_ E0]. rewrite E0 in Hl'.
    left. destruct (N.eqb_spec l0 l) as [<-|]; [|rewrite Hl in Hl'; inversion Hl'; reflexivity].
    inversion Hl'; subst h'. cbn [ver]. rewrite El0 in Hl. inversion Hl; reflexivity.
  - destruct (get_tx s c) as [t|] eqn:Et; [|discriminate]. destruct (t_plog t) as [imgs|]; [|discriminate].
    destruct (_ && free_or_own _ _ _); [|discriminate].
    destruct (prio_ver_ok _ _); inversion Hs; subst s'; clear Hs; cbn [sreg shist] in *.
    + destruct (in_dec N.eq_dec l (map lid imgs)) as [Hin|Hn].
      * right. right. right. exists c, (map (fun h => EUndo c (lid h)) imgs). split; [reflexivity|].
        apply in_map_iff in Hin. destruct Hin as (g & <- & Hg). apply in_map_iff. exists g. split; [reflexivity|exact Hg].
      * left. rewrite lookup_fold_set_other in Hl' by exact Hn. rewrite Hl in Hl'. inversion Hl'; reflexivity.
    + left. apply SAME. reflexivity.
  - destruct (fresh_id s l0); [|discriminate]. inversion Hs; subst s'. cbn [sreg] in Hl'.
    left. rewrite (lookup_app_some _ _ _ _ Hl) in Hl'. inversion Hl'; reflexivity.
  - destruct (_ && _); [|discriminate]. inversion Hs; subst s'. left. apply SAME. reflexivity.
Qed.

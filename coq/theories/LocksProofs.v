(* LocksProofs.v — invariants of the lock-service models of Locks.v (C28). *)
From Coq Require Import List NArith ZArith Bool Lia.
From SopVerif Require Import Gen.LocksConsts Locks.
Import ListNotations.
Local Open Scope N_scope.

(* ------------------------------------------------------------ tables *)

Lemma lookup_remove_eq k t : lookup k (remove k t) = None.
Proof.
  induction t as [|[k' v] r IH]; cbn; auto.
  destruct (k =? k') eqn:E; auto. cbn. rewrite E. auto.
Qed.

Lemma lookup_remove_neq k k' t : k <> k' -> lookup k (remove k' t) = lookup k t.
Proof.
  intros H. induction t as [|[k2 v] r IH]; cbn; auto.
  destruct (k' =? k2) eqn:E.
  - apply N.eqb_eq in E. subst k2.
    destruct (k =? k') eqn:E2; [apply N.eqb_eq in E2; congruence|auto].
  - cbn. destruct (k =? k2); auto.
Qed.

Lemma lookup_upsert k k' v t : lookup k (upsert k' v t) = if k =? k' then Some v else lookup k t.
Proof.
  unfold upsert. cbn. destruct (k =? k') eqn:E; auto.
  apply lookup_remove_neq. apply N.eqb_neq. auto.
Qed.

Lemma mem_cons k a r : mem k (a :: r) = (k =? a) || mem k r.
Proof. reflexivity. Qed.

Lemma mem_In k ks : mem k ks = true <-> In k ks.
Proof.
  unfold mem. rewrite existsb_exists. split.
  - intros [x [Hi He]]. apply N.eqb_eq in He. subst. auto.
  - intros Hi. exists k. split; auto. apply N.eqb_refl.
Qed.

Lemma mem_false k ks : mem k ks = false <-> ~ In k ks.
Proof.
  split.
  - intros H Hin. apply mem_In in Hin. congruence.
  - intros H. destruct (mem k ks) eqn:E; auto. apply mem_In in E. contradiction.
Qed.

Lemma lookup_release_own o ks : forall t k,
  lookup k (release_own o ks t) =
  match lookup k t with
  | Some (o', e) => if (o' =? o) && mem k ks then None else Some (o', e)
  | None => None
  end.
Proof.
  induction ks as [|a r IH]; intros t k; cbn [release_own].
  - destruct (lookup k t) as [[o' e]|]; auto. cbn. rewrite andb_false_r. auto.
  - rewrite IH. rewrite mem_cons.
    destruct (lookup a t) as [[oa ea]|] eqn:Ha.
    + destruct (oa =? o) eqn:Eo.
      * destruct (N.eq_dec k a) as [Heq|Hne].
        -- subst k. rewrite lookup_remove_eq. rewrite Ha. rewrite Eo. rewrite N.eqb_refl. cbn. auto.
        -- rewrite lookup_remove_neq by auto. destruct (lookup k t) as [[o' e]|]; auto.
           assert (Hk : k =? a = false) by (apply N.eqb_neq; auto). rewrite Hk. cbn. auto.
      * destruct (lookup k t) as [[o' e]|] eqn:Hk; auto.
        destruct (k =? a) eqn:E; cbn; auto.
        apply N.eqb_eq in E; subst k. rewrite Ha in Hk. inversion Hk; subst. rewrite Eo. cbn. auto.
    + destruct (lookup k t) as [[o' e]|] eqn:Hk; auto.
      destruct (k =? a) eqn:E; cbn; auto. apply N.eqb_eq in E; subst k. congruence.
Qed.

Lemma lookup_fold_remove ks : forall t k,
  lookup k (fold_left (fun t k => remove k t) ks t) = if mem k ks then None else lookup k t.
Proof.
  induction ks as [|a r IH]; intros t k; cbn [fold_left]; auto.
  rewrite IH. rewrite mem_cons.
  destruct (mem k r); [rewrite orb_true_r; auto|]. rewrite orb_false_r.
  destruct (k =? a) eqn:E.
  - apply N.eqb_eq in E. subst. apply lookup_remove_eq.
  - apply lookup_remove_neq. apply N.eqb_neq. auto.
Qed.

Lemma lookup_refresh o e ks : forall t k,
  lookup k (refresh o e ks t) = if mem k ks then Some (o, e) else lookup k t.
Proof.
  unfold refresh. induction ks as [|a r IH]; intros t k; cbn [fold_left]; auto.
  rewrite IH. rewrite mem_cons. rewrite lookup_upsert.
  destruct (mem k r); [rewrite orb_true_r; auto|]. rewrite orb_false_r. auto.
Qed.

(* ------------------------------------------------------------ expiry *)

Lemma expired_mono now now' e : now <= now' -> expired now e = true -> expired now' e = true.
Proof. destruct e as [x|]; cbn; auto. rewrite !N.ltb_lt. lia. Qed.

Lemma expired_mono_false now now' e : now <= now' -> expired now' e = false -> expired now e = false.
Proof.
  intros H H'. destruct (expired now e) eqn:E; auto.
  rewrite (expired_mono _ _ _ H E) in H'. discriminate.
Qed.

Lemma exp_le_refl e : exp_le e e = true.
Proof. destruct e; cbn; auto. apply N.leb_refl. Qed.

Lemma exp_le_trans a b c : exp_le a b = true -> exp_le b c = true -> exp_le a c = true.
Proof.
  destruct a, b, c; cbn; auto; try discriminate. rewrite !N.leb_le. lia.
Qed.

Lemma exp_le_live now a b : exp_le a b = true -> expired now a = false -> expired now b = false.
Proof.
  destruct a, b; cbn; auto; try discriminate. rewrite N.leb_le, !N.ltb_ge. lia.
Qed.

Lemma expired_new now d : expired now (Some (now + d)) = false.
Proof. cbn. apply N.ltb_ge. lia. Qed.

(* ------------------------------------------------------------ the invariant *)

(* every owner that was told "you hold k" and whose recorded TTL has not elapsed
   still has its entry in the table, with a TTL at least as long *)
Definition inv (t : table) (now : N) (b : belief) : Prop :=
  forall o k e, b o k = Some e -> expired now e = false ->
    exists e', lookup k t = Some (o, e') /\ exp_le e e' = true.

Lemma inv_believer_held t now b o k :
  inv t now b -> believerb b now o k = true -> heldb t now k o = true.
Proof.
  unfold believerb, heldb. intros Hi Hb.
  destruct (b o k) as [e|] eqn:E; [|discriminate].
  apply negb_true_iff in Hb. destruct (Hi o k e E Hb) as [e' [Hl Hle]].
  rewrite Hl. rewrite N.eqb_refl. cbn. rewrite (exp_le_live _ _ _ Hle Hb). auto.
Qed.

Lemma heldb_unique t now k o1 o2 : heldb t now k o1 = true -> heldb t now k o2 = true -> o1 = o2.
Proof.
  unfold heldb. destruct (lookup k t) as [[o e]|]; [|discriminate].
  intros H1 H2. apply andb_true_iff in H1, H2. destruct H1 as [H1 _], H2 as [H2 _].
  apply N.eqb_eq in H1, H2. congruence.
Qed.

Lemma inv_init now : inv [] now no_belief.
Proof. intros o k e H. discriminate. Qed.

(* One step preserves the invariant when (frame) every live entry outside the
   caller's own subject set survives with a TTL that is not shortened, and
   (grant) a granting answer is backed by an entry for every key asked for. *)
Lemma inv_step t now b t' now' p rs :
  inv t now b -> now <= now' ->
  (forall o1 k1 e1, lookup k1 t = Some (o1, e1) -> expired now' e1 = false ->
     (forall o ks, subject p = Some (o, ks) -> ~ (o1 = o /\ In k1 ks)) ->
     exists e2, lookup k1 t' = Some (o1, e2) /\ exp_le e1 e2 = true) ->
  (forall o ks, subject p = Some (o, ks) -> grants p rs = true ->
     forall k, In k ks -> exists e, lookup k t' = Some (o, e)) ->
  inv t' now' (bel_update t' now' p rs b).
Proof.
  intros Hi Hnow Hframe Hgrant o1 k1 e Hb Hexp.
  assert (Hold : b o1 k1 = Some e -> exists e', lookup k1 t' = Some (o1, e') /\ exp_le e e' = true
                 \/ (exists o ks, subject p = Some (o, ks) /\ o1 = o /\ In k1 ks)).
  { intros Hb0.
    destruct (Hi o1 k1 e Hb0 (expired_mono_false _ _ _ Hnow Hexp)) as [e1 [Hl Hle]].
    destruct (subject p) as [[o ks]|] eqn:Hs.
    - destruct ((o1 =? o) && mem k1 ks) eqn:Hm.
      + apply andb_true_iff in Hm. destruct Hm as [Ho Hk]. apply N.eqb_eq in Ho. apply mem_In in Hk.
        exists e. right. exists o, ks. auto.
      + destruct (Hframe o1 k1 e1 Hl (exp_le_live _ _ _ Hle Hexp)) as [e2 [Hl2 Hle2]].
        * intros o0 ks0 Heq [Ho Hk]. inversion Heq; subst o0 ks0.
          apply andb_false_iff in Hm. destruct Hm as [Hm|Hm].
          -- apply N.eqb_neq in Hm. auto.
          -- apply mem_false in Hm. auto.
        * exists e2. left. split; auto. eapply exp_le_trans; eauto.
    - destruct (Hframe o1 k1 e1 Hl (exp_le_live _ _ _ Hle Hexp)) as [e2 [Hl2 Hle2]].
      + intros o0 ks0 Heq. discriminate.
      + exists e2. left. split; auto. eapply exp_le_trans; eauto. }
  unfold bel_update in Hb.
  destruct (subject p) as [[o ks]|] eqn:Hs.
  - destruct ((o1 =? o) && mem k1 ks) eqn:Hm.
    + apply andb_true_iff in Hm. destruct Hm as [Ho Hk]. apply N.eqb_eq in Ho. apply mem_In in Hk. subst o1.
      destruct (grants p rs); [|discriminate].
      destruct (Hgrant o ks eq_refl eq_refl k1 Hk) as [e0 Hl0].
      inversion Hb; subst e. unfold told. rewrite Hl0. rewrite N.eqb_refl.
      exists e0. split; auto. apply exp_le_refl.
    + destruct (Hold Hb) as [e' [[Hl Hle]|[o0 [ks0 [Heq [Ho Hk]]]]]].
      * exists e'. auto.
      * inversion Heq; subst o0 ks0. subst o1.
        rewrite N.eqb_refl in Hm. cbn in Hm. apply mem_false in Hm. contradiction.
  - destruct (Hold Hb) as [e' [[Hl Hle]|[o0 [ks0 [Heq _]]]]].
    + exists e'. auto.
    + discriminate.
Qed.

(* ------------------------------------------------------------ in-memory: the Lock loop *)

Lemma heldb_lookup t now k o : heldb t now k o = true -> exists e, lookup k t = Some (o, e) /\ expired now e = false.
Proof.
  unfold heldb. destruct (lookup k t) as [[o' e]|]; [|discriminate].
  intros H. apply andb_true_iff in H. destruct H as [H1 H2]. apply N.eqb_eq in H1. subst.
  apply negb_true_iff in H2. eauto.
Qed.

Lemma insert_key_In x k l : In x (insert_key k l) <-> x = k \/ In x l.
Proof.
  induction l as [|a r IH]; cbn.
  - intuition.
  - destruct (k <=? a); cbn; rewrite ?IH; intuition.
Qed.

Lemma sort_keys_In x ks : In x (sort_keys ks) <-> In x ks.
Proof.
  unfold sort_keys. induction ks as [|a r IH]; cbn; [tauto|].
  rewrite insert_key_In, IH. intuition.
Qed.

Lemma in_single {A} (x y : A) : In x [y] -> x = y.
Proof. intros [H|[]]. auto. Qed.

Lemma not_held_lookup now k t o e :
  not_held now k t = true -> lookup k t = Some (o, e) -> expired now e = true.
Proof.
  unfold not_held, live. intros H Hl. rewrite Hl in H.
  destruct (expired now e); [reflexivity|discriminate].
Qed.

(* making room for a new key never removes an unexpired entry: the eviction victim is
   always an expired entry (isHeldLock), and without one nothing is evicted *)
Lemma make_room_frame cfg now t k t2 :
  In t2 (make_room cfg now t k) ->
  forall k1 o1 e1, lookup k1 t = Some (o1, e1) -> expired now e1 = false -> lookup k1 t2 = Some (o1, e1).
Proof.
  unfold make_room. intros Hin k1 o1 e1 Hl Hlive.
  destruct (Nat.leb (im_cap cfg) (length (shard_entries cfg t (im_shard cfg k)))).
  - destruct (im_victims cfg now t k) as [|c0 vs] eqn:Hv.
    + apply in_single in Hin. subst. auto.
    + apply in_map_iff in Hin. destruct Hin as [c [Hc Hin]]. subst t2.
      rewrite <- Hv in Hin. unfold im_victims in Hin. apply filter_In in Hin. destruct Hin as [_ Hf].
      apply andb_true_iff in Hf. destruct Hf as [Hnh _].
      rewrite lookup_remove_neq; auto.
      intros Heq. subst k1. rewrite (not_held_lookup _ _ _ _ _ Hnh Hl) in Hlive. discriminate.
  - apply in_single in Hin. subst. auto.
Qed.

(* a live entry that the caller does not own-and-ask-for survives the whole Lock command *)
Lemma im_lock_loop_frame cfg now o e : forall ks acq t t' rs,
  In (t', rs) (im_lock_loop cfg now o e ks acq t) ->
  forall k1 o1 e1, lookup k1 t = Some (o1, e1) -> expired now e1 = false ->
    ~ (o1 = o /\ (In k1 ks \/ In k1 acq)) -> lookup k1 t' = Some (o1, e1).
Proof.
  induction ks as [|k r IH]; intros acq t t' rs Hin k1 o1 e1 Hl Hlive Hn.
  - cbn in Hin. apply in_single in Hin. inversion Hin; subst. auto.
  - cbn [im_lock_loop] in Hin.
    assert (Hn' : forall acq', (forall x, In x acq' -> x = k \/ In x acq) ->
                               ~ (o1 = o /\ (In k1 r \/ In k1 acq'))).
    { intros acq' Hsub [Ho [Hk|Hk]]; apply Hn; split; auto.
      - left. right. auto.
      - destruct (Hsub _ Hk) as [Hx|Hk']; [left; left; auto|right; auto]. }
    destruct (lookup k t) as [[o' e']|] eqn:Hk.
    + destruct (expired now e') eqn:Hexp.
      * assert (Hne : k1 <> k). { intros Heq. subst k1. rewrite Hk in Hl. inversion Hl; subst. congruence. }
        apply (IH (k :: acq) (upsert k (o, e) t) t' rs Hin k1 o1 e1); auto.
        -- rewrite lookup_upsert. assert (Hb : k1 =? k = false) by (apply N.eqb_neq; auto). rewrite Hb. auto.
        -- apply Hn'. intros x [Hx|Hx]; auto.
      * destruct (o' =? o) eqn:Ho.
        -- apply (IH acq t t' rs Hin k1 o1 e1); auto.
        -- apply in_single in Hin. inversion Hin; subst.
           rewrite lookup_release_own. rewrite Hl.
           destruct ((o1 =? o) && mem k1 acq) eqn:Hm; auto.
           apply andb_true_iff in Hm. destruct Hm as [Hm1 Hm2]. apply N.eqb_eq in Hm1. apply mem_In in Hm2.
           exfalso. apply Hn. auto.
    + assert (Hne : k1 <> k). { intros Heq. subst k1. congruence. }
      assert (Hb : k1 =? k = false) by (apply N.eqb_neq; auto).
      apply in_flat_map in Hin. destruct Hin as [t2 [Ht2 Hin]].
      apply (IH (k :: acq) (upsert k (o, e) t2) t' rs Hin k1 o1 e1); auto.
      * rewrite lookup_upsert, Hb. eapply make_room_frame; eauto.
      * apply Hn'. intros x [Hx|Hx]; auto.
Qed.

(* on a successful outcome the caller's live entries stay its own and live *)
Lemma im_lock_loop_keeps cfg now o e : expired now e = false -> forall ks acq t t' oth,
  In (t', (true, oth)) (im_lock_loop cfg now o e ks acq t) ->
  forall k1 e1, lookup k1 t = Some (o, e1) -> expired now e1 = false ->
  exists e2, lookup k1 t' = Some (o, e2) /\ expired now e2 = false.
Proof.
  intros He. induction ks as [|k r IH]; intros acq t t' oth Hin k1 e1 Hl Hlive.
  - cbn in Hin. apply in_single in Hin. inversion Hin; subst. eauto.
  - cbn [im_lock_loop] in Hin.
    destruct (lookup k t) as [[o' e']|] eqn:Hk.
    + destruct (expired now e') eqn:Hexp.
      * assert (Hne : k1 <> k). { intros Heq. subst k1. rewrite Hk in Hl. inversion Hl; subst. congruence. }
        apply (IH (k :: acq) (upsert k (o, e) t) t' oth Hin k1 e1); auto.
        rewrite lookup_upsert. assert (Hb : k1 =? k = false) by (apply N.eqb_neq; auto). rewrite Hb. auto.
      * destruct (o' =? o) eqn:Ho.
        -- apply (IH acq t t' oth Hin k1 e1); auto.
        -- apply in_single in Hin. inversion Hin.
    + assert (Hne : k1 <> k). { intros Heq. subst k1. congruence. }
      assert (Hb : k1 =? k = false) by (apply N.eqb_neq; auto).
      apply in_flat_map in Hin. destruct Hin as [t2 [Ht2 Hin]].
      apply (IH (k :: acq) (upsert k (o, e) t2) t' oth Hin k1 e1); auto.
      rewrite lookup_upsert, Hb. eapply make_room_frame; eauto.
Qed.

(* a successful outcome leaves a live entry of the caller for every key asked for *)
Lemma im_lock_loop_holds cfg now o e : expired now e = false -> forall ks acq t t' oth,
  In (t', (true, oth)) (im_lock_loop cfg now o e ks acq t) ->
  forall k, In k ks -> exists e2, lookup k t' = Some (o, e2) /\ expired now e2 = false.
Proof.
  intros He. induction ks as [|k0 r IH]; intros acq t t' oth Hin k Hk; [destruct Hk|].
  assert (Hfin : forall acq2 t2 ex, In (t', (true, oth)) (im_lock_loop cfg now o e r acq2 t2) ->
            lookup k0 t2 = Some (o, ex) -> expired now ex = false ->
            exists e2, lookup k t' = Some (o, e2) /\ expired now e2 = false).
  { intros acq2 t2 ex Hin2 Hl2 Hx. destruct Hk as [Hk|Hk].
    - subst k. apply (im_lock_loop_keeps cfg now o e He r acq2 t2 t' oth Hin2 k0 ex Hl2 Hx).
    - apply (IH acq2 t2 t' oth Hin2 k Hk). }
  cbn [im_lock_loop] in Hin.
  destruct (lookup k0 t) as [[o' e']|] eqn:Hk0.
  - destruct (expired now e') eqn:Hexp.
    + apply (Hfin (k0 :: acq) (upsert k0 (o, e) t) e Hin); auto. rewrite lookup_upsert, N.eqb_refl. auto.
    + destruct (o' =? o) eqn:Ho.
      * apply N.eqb_eq in Ho. subst o'. apply (Hfin acq t e' Hin); auto.
      * apply in_single in Hin. inversion Hin.
  - apply in_flat_map in Hin. destruct Hin as [t2 [Ht2 Hin]].
    apply (Hfin (k0 :: acq) (upsert k0 (o, e) t2) e Hin); auto. rewrite lookup_upsert, N.eqb_refl. auto.
Qed.

Lemma im_lock_loop_grants cfg now o e : expired now e = false -> forall ks acq t t' oth,
  In (t', (true, oth)) (im_lock_loop cfg now o e ks acq t) ->
  forall k, In k ks -> exists e2, lookup k t' = Some (o, e2).
Proof.
  intros He ks acq t t' oth Hin k Hk.
  destruct (im_lock_loop_holds cfg now o e He ks acq t t' oth Hin k Hk) as [e2 [H1 _]]. eauto.
Qed.

(* ------------------------------------------------------------ in-memory: one command *)

Lemma im_lock_props cfg s o d ks s' rs :
  In (s', rs) (im_lock cfg s o d ks) ->
  im_now s' = im_now s /\
  (forall k1 o1 e1, lookup k1 (im_tbl s) = Some (o1, e1) -> expired (im_now s) e1 = false ->
     ~ (o1 = o /\ In k1 ks) -> lookup k1 (im_tbl s') = Some (o1, e1)) /\
  (fst rs = true -> forall k, In k ks -> exists e2, lookup k (im_tbl s') = Some (o, e2)).
Proof.
  unfold im_lock. intros Hin. apply in_map_iff in Hin. destruct Hin as [out [Hout Hin]].
  destruct out as [t2 rs2]. unfold im_out in Hout. cbn in Hout. inversion Hout; subst s' rs2. clear Hout.
  cbn. split; [auto|split].
  - intros k1 o1 e1 Hl Hlive Hn. eapply im_lock_loop_frame; eauto.
    intros [Ho [Hk|[]]]. apply Hn. split; auto. apply sort_keys_In. auto.
  - intros Hok k Hk. destruct rs as [ok oth]. cbn in Hok. subst ok.
    eapply im_lock_loop_grants; eauto using expired_new. apply sort_keys_In. auto.
Qed.

Lemma im_ttl_check_frame now o ks : forall t k1 o1 e1,
  lookup k1 t = Some (o1, e1) -> expired now e1 = false ->
  lookup k1 (snd (im_ttl_check now o ks t)) = Some (o1, e1).
Proof.
  induction ks as [|k r IH]; intros t k1 o1 e1 Hl Hlive; cbn [im_ttl_check]; auto.
  destruct (lookup k t) as [[o' e]|] eqn:Hk; auto.
  destruct (negb (o' =? o)); auto.
  destruct (expired now e) eqn:He; auto.
  cbn. rewrite lookup_remove_neq; auto.
  intros Heq. subst k1. rewrite Hk in Hl. inversion Hl; subst. congruence.
Qed.

Lemma im_ttl_check_true now o ks : forall t,
  fst (im_ttl_check now o ks t) = true -> forall k, In k ks -> exists e, lookup k t = Some (o, e).
Proof.
  induction ks as [|k0 r IH]; intros t H k Hk; [destruct Hk|].
  cbn [im_ttl_check] in H.
  destruct (lookup k0 t) as [[o' e]|] eqn:Hk0; [|discriminate].
  destruct (o' =? o) eqn:Ho; cbn in H; [|discriminate].
  destruct (expired now e); [discriminate|].
  destruct Hk as [Hk|Hk].
  - subst k. apply N.eqb_eq in Ho. subst o'. eauto.
  - eapply IH; eauto.
Qed.

(* the invariant survives every in-memory command, whatever the capacity and whichever
   victim an eviction picks *)
Lemma im_step_inv cfg s b s' rs p :
  inv (im_tbl s) (im_now s) b -> In (s', rs) (im_step cfg s p) ->
  inv (im_tbl s') (im_now s') (bel_update (im_tbl s') (im_now s') p rs b).
Proof.
  intros Hi Hin. destruct p as [o d ks|o d ks|o ks|o d ks|ks|o ks|n]; cbn [im_step] in Hin.
  - (* Lock *)
    destruct (im_lock_props _ _ _ _ _ _ _ Hin) as [Hnow [Hfr Hgr]].
    apply (inv_step (im_tbl s) (im_now s) b); [exact Hi| | |].
    + rewrite Hnow. lia.
    + intros o1 k1 e1 Hl Hlive Hs. exists e1. split; [|apply exp_le_refl].
      rewrite Hnow in Hlive. apply Hfr; auto; apply (Hs o ks eq_refl).
    + intros o0 ks0 Heq Hg k Hk. inversion Heq; subst o0 ks0. cbn in Hg. eauto.
  - (* DualLock *)
    apply in_map_iff in Hin. destruct Hin as [x [Hx Hin]]. destruct x as [s1 rs1]. cbn in Hx.
    destruct (fst rs1) eqn:Hok.
    + inversion Hx; subst s' rs. clear Hx.
      destruct (im_lock_props _ _ _ _ _ _ _ Hin) as [Hnow [Hfr Hgr]].
      apply (inv_step (im_tbl s) (im_now s) b); [exact Hi| | |].
      * rewrite Hnow. lia.
      * intros o1 k1 e1 Hl Hlive Hs. exists e1. split; [|apply exp_le_refl].
        rewrite Hnow in Hlive. apply Hfr; auto; apply (Hs o ks eq_refl).
      * intros o0 ks0 Heq Hg k Hk. inversion Heq; subst o0 ks0. cbn in Hg.
        unfold im_is_locked in Hg. rewrite forallb_forall in Hg.
        destruct (heldb_lookup _ _ _ _ (Hg k Hk)) as [e [Hl _]]. eauto.
    + inversion Hx; subst s' rs. clear Hx.
      destruct (im_lock_props _ _ _ _ _ _ _ Hin) as [Hnow [Hfr Hgr]].
      apply (inv_step (im_tbl s) (im_now s) b); [exact Hi| | |].
      * rewrite Hnow. lia.
      * intros o1 k1 e1 Hl Hlive Hs. exists e1. split; [|apply exp_le_refl].
        rewrite Hnow in Hlive. apply Hfr; auto; apply (Hs o ks eq_refl).
      * intros o0 ks0 Heq Hg k Hk. cbn in Hg. congruence.
  - (* IsLocked *)
    apply in_single in Hin. inversion Hin; subst s' rs. clear Hin.
    apply (inv_step (im_tbl s) (im_now s) b); [exact Hi| | |].
    + lia.
    + intros o1 k1 e1 Hl _ _. exists e1. split; auto using exp_le_refl.
    + intros o0 ks0 Heq Hg k Hk. inversion Heq; subst o0 ks0. cbn in Hg.
      unfold im_is_locked in Hg. rewrite forallb_forall in Hg.
      destruct (heldb_lookup _ _ _ _ (Hg k Hk)) as [e [Hl _]]. eauto.
  - (* IsLockedTTL *)
    destruct (fst (im_ttl_check (im_now s) o ks (im_tbl s))) eqn:Hc;
      apply in_single in Hin; inversion Hin; subst s' rs; clear Hin; cbn [im_tbl im_now].
    + apply (inv_step (im_tbl s) (im_now s) b); [exact Hi| | |].
      * lia.
      * intros o1 k1 e1 Hl Hlive Hs. rewrite lookup_refresh.
        destruct (mem k1 ks) eqn:Hm.
        -- apply mem_In in Hm. destruct (im_ttl_check_true _ _ _ _ Hc k1 Hm) as [e0 Hl0].
           rewrite Hl0 in Hl. inversion Hl; subst o1 e1. exfalso. apply (Hs o ks eq_refl). auto.
        -- exists e1. split; auto using exp_le_refl.
      * intros o0 ks0 Heq Hg k Hk. inversion Heq; subst o0 ks0.
        rewrite lookup_refresh. apply mem_In in Hk. rewrite Hk. eauto.
    + apply (inv_step (im_tbl s) (im_now s) b); [exact Hi| | |].
      * lia.
      * intros o1 k1 e1 Hl Hlive Hs. exists e1. split; [|apply exp_le_refl].
        apply im_ttl_check_frame; auto.
      * intros o0 ks0 Heq Hg k Hk. cbn in Hg. discriminate.
  - (* IsLockedByOthers *)
    apply in_single in Hin. inversion Hin; subst s' rs. clear Hin.
    apply (inv_step (im_tbl s) (im_now s) b); [exact Hi| | |].
    + lia.
    + intros o1 k1 e1 Hl _ _. exists e1. split; auto using exp_le_refl.
    + intros o0 ks0 Heq. discriminate.
  - (* Unlock *)
    apply in_single in Hin. inversion Hin; subst s' rs. clear Hin. cbn [im_tbl im_now].
    apply (inv_step (im_tbl s) (im_now s) b); [exact Hi| | |].
    + lia.
    + intros o1 k1 e1 Hl Hlive Hs. exists e1. split; [|apply exp_le_refl].
      rewrite lookup_release_own, Hl.
      destruct ((o1 =? o) && mem k1 ks) eqn:Hm; auto.
      apply andb_true_iff in Hm. destruct Hm as [Hm1 Hm2]. apply N.eqb_eq in Hm1. apply mem_In in Hm2.
      exfalso. apply (Hs o ks eq_refl). auto.
    + intros o0 ks0 Heq Hg. cbn in Hg. discriminate.
  - (* Tick *)
    apply in_single in Hin. inversion Hin; subst s' rs. clear Hin. cbn [im_tbl im_now].
    apply (inv_step (im_tbl s) (im_now s) b); [exact Hi| | |].
    + lia.
    + intros o1 k1 e1 Hl _ _. exists e1. split; auto using exp_le_refl.
    + intros o0 ks0 Heq. discriminate.
Qed.

(* ... hence every run of commands *)
Lemma im_run_inv cfg : forall ops s b s' b',
  inv (im_tbl s) (im_now s) b -> In (s', b') (im_run cfg ops s b) ->
  inv (im_tbl s') (im_now s') b'.
Proof.
  induction ops as [|p r IH]; intros s b s' b' Hi Hin.
  - apply in_single in Hin. inversion Hin; subst. auto.
  - cbn [im_run] in Hin. apply in_flat_map in Hin. destruct Hin as [out [Hout Hin]].
    destruct out as [s1 rs1]. cbn [fst snd] in Hin.
    apply (IH s1 (bel_update (im_tbl s1) (im_now s1) p rs1 b) s' b'); auto.
    eapply im_step_inv; eauto.
Qed.

(* the full statement for the in-memory service: every believer is the holder, hence
   two believers of one key are the same owner *)
Lemma im_mutex cfg ops s b :
  In (s, b) (im_run cfg ops im_init no_belief) ->
  forall k o1 o2,
    (believerb b (im_now s) o1 k = true -> heldb (im_tbl s) (im_now s) k o1 = true) /\
    (believerb b (im_now s) o1 k = true -> believerb b (im_now s) o2 k = true -> o1 = o2).
Proof.
  intros Hin k o1 o2.
  pose proof (im_run_inv cfg ops im_init no_belief s b (inv_init 0) Hin) as Hi.
  split.
  - apply inv_believer_held. exact Hi.
  - intros H1 H2. eapply heldb_unique; eapply inv_believer_held; eauto.
Qed.

(* a Lock never makes an unexpired entry of ANOTHER owner disappear, full or not *)
Lemma im_lock_keeps_foreign cfg s o d ks s' rs k1 o1 :
  In (s', rs) (im_step cfg s (OLock o d ks)) -> o1 <> o ->
  heldb (im_tbl s) (im_now s) k1 o1 = true -> heldb (im_tbl s') (im_now s') k1 o1 = true.
Proof.
  cbn [im_step]. intros Hin Hne Hh.
  destruct (im_lock_props _ _ _ _ _ _ _ Hin) as [Hnow [Hfr _]].
  destruct (heldb_lookup _ _ _ _ Hh) as [e [Hl He]].
  unfold heldb. rewrite (Hfr k1 o1 e Hl He), Hnow by (intros [Ho _]; auto).
  rewrite N.eqb_refl, He. auto.
Qed.

(* a successful Lock holds every key it was asked for (no self-eviction) *)
Lemma im_lock_true_holds cfg s o d ks s' rs k :
  In (s', rs) (im_step cfg s (OLock o d ks)) -> fst rs = true -> In k ks ->
  heldb (im_tbl s') (im_now s') k o = true.
Proof.
  cbn [im_step]. unfold im_lock. intros Hin Hok Hk.
  apply in_map_iff in Hin. destruct Hin as [out [Hout Hin]].
  destruct out as [t2 rs2]. unfold im_out in Hout. cbn in Hout. inversion Hout; subst s' rs2. clear Hout.
  destruct rs as [ok oth]. cbn in Hok. subst ok. cbn [im_tbl im_now].
  assert (Hks : In k (sort_keys ks)) by (apply sort_keys_In; auto).
  destruct (im_lock_loop_holds cfg (im_now s) o _ (expired_new _ _) _ _ _ _ _ Hin k Hks) as [e2 [H1 H2]].
  unfold heldb. rewrite H1, N.eqb_refl, H2. auto.
Qed.

(* Unlock by anybody else never frees a held lock (any state, any capacity) *)
Lemma im_unlock_foreign cfg s o' ks k o s' rs :
  In (s', rs) (im_step cfg s (OUnlock o' ks)) -> o' <> o ->
  heldb (im_tbl s) (im_now s) k o = true -> heldb (im_tbl s') (im_now s') k o = true.
Proof.
  cbn [im_step]. intros Hin Hne Hh. apply in_single in Hin. inversion Hin; subst s' rs. cbn [im_tbl im_now].
  destruct (heldb_lookup _ _ _ _ Hh) as [e [Hl He]].
  unfold heldb. rewrite lookup_release_own, Hl.
  assert (Hb : o =? o' = false) by (apply N.eqb_neq; auto). rewrite Hb. cbn.
  rewrite N.eqb_refl, He. auto.
Qed.

(* the translator found the guard in the code this model describes *)
Lemma eviction_guard_present : lockEvictionSkipsHeldLocks = true.
Proof. reflexivity. Qed.

(* ------------------------------------------------------------ Redis adapter *)

Lemma live_some now k t o e : live now k t = Some (o, e) -> lookup k t = Some (o, e) /\ expired now e = false.
Proof.
  unfold live. destruct (lookup k t) as [[o' e']|]; [|discriminate].
  destruct (expired now e') eqn:E; [discriminate|]. intros H. inversion H; subst. auto.
Qed.

Lemma live_of_lookup now k t o e : lookup k t = Some (o, e) -> expired now e = false -> live now k t = Some (o, e).
Proof. unfold live. intros -> ->. auto. Qed.

Lemma live_upsert_neq now k k' v t : k <> k' -> live now k (upsert k' v t) = live now k t.
Proof.
  intros H. unfold live. rewrite lookup_upsert.
  assert (Hb : k =? k' = false) by (apply N.eqb_neq; auto). rewrite Hb. auto.
Qed.

Lemma rd_ttl_live now d : expired now (rd_ttl now d) = false.
Proof. unfold rd_ttl. destruct (d =? 0); auto using expired_new. Qed.

Lemma filter_nil {A} (f : A -> bool) l : filter f l = [] -> forall x, In x l -> f x = false.
Proof.
  induction l as [|a r IH]; intros H x Hx; [destruct Hx|].
  cbn in H. destruct (f a) eqn:E; [discriminate|].
  destruct Hx as [Hx|Hx]; [subst; auto|auto].
Qed.

(* SET NX never touches a live entry *)
Lemma rd_setnx_frame now o e : forall ks t fl failed k1 o1 e1,
  lookup k1 t = Some (o1, e1) -> expired now e1 = false ->
  lookup k1 (fst (fst (rd_setnx now o e ks t fl failed))) = Some (o1, e1).
Proof.
  induction ks as [|a r IH]; intros t fl failed k1 o1 e1 Hl Hlive; cbn [rd_setnx]; auto.
  destruct (live now a t) as [v|] eqn:Hlv.
  - apply IH; auto.
  - apply IH; auto. rewrite lookup_upsert. destruct (k1 =? a) eqn:E; auto.
    apply N.eqb_eq in E. subst k1. rewrite (live_of_lookup _ _ _ _ _ Hl Hlive) in Hlv. discriminate.
Qed.

Lemma rd_setnx_failed_acc now o e : forall ks t fl failed k,
  In k failed -> In k (snd (rd_setnx now o e ks t fl failed)).
Proof.
  induction ks as [|a r IH]; intros t fl failed k Hk; cbn [rd_setnx].
  - cbn. apply in_rev in Hk. auto.
  - destruct (live now a t); apply IH; cbn; auto.
Qed.

Lemma rd_setnx_keys now o e : expired now e = false -> forall ks t fl failed k,
  In k ks ->
  In k (snd (rd_setnx now o e ks t fl failed)) \/
  exists e2, lookup k (fst (fst (rd_setnx now o e ks t fl failed))) = Some (o, e2).
Proof.
  intros He. induction ks as [|a r IH]; intros t fl failed k Hk; [destruct Hk|].
  cbn [rd_setnx]. destruct Hk as [Hk|Hk].
  - subst a. destruct (live now k t) as [v|] eqn:Hlv.
    + left. apply rd_setnx_failed_acc. cbn. auto.
    + right. exists e. apply rd_setnx_frame; auto. rewrite lookup_upsert, N.eqb_refl. auto.
  - destruct (live now a t); apply IH; auto.
Qed.

Lemma rd_getcheck_true now o : forall ks t fl,
  fst (snd (rd_getcheck now o ks t fl)) = true -> forall k, In k ks -> exists e, lookup k t = Some (o, e).
Proof.
  induction ks as [|a r IH]; intros t fl H k Hk; [destruct Hk|].
  cbn [rd_getcheck] in H.
  destruct (live now a t) as [[o' e0]|] eqn:Hlv; [|discriminate].
  destruct (o' =? o) eqn:Ho; [|discriminate].
  destruct Hk as [Hk|Hk].
  - subst a. apply N.eqb_eq in Ho. subst o'. apply live_some in Hlv. destruct Hlv. eauto.
  - eapply IH; eauto.
Qed.

Lemma rd_lock_props s o d ks :
  let out := rd_lock s o d ks in
  rd_now (fst out) = rd_now s /\
  (forall k1 o1 e1, lookup k1 (rd_tbl s) = Some (o1, e1) -> expired (rd_now s) e1 = false ->
     lookup k1 (rd_tbl (fst out)) = Some (o1, e1)) /\
  (fst (snd out) = true -> forall k, In k ks -> exists e2, lookup k (rd_tbl (fst out)) = Some (o, e2)).
Proof.
  unfold rd_lock. cbn. split; [auto|split].
  - intros k1 o1 e1 Hl Hlive. apply rd_setnx_frame; auto.
  - intros Hok k Hk.
    destruct (rd_setnx_keys (rd_now s) o (rd_ttl (rd_now s) d) (rd_ttl_live _ _) ks (rd_tbl s) (rd_flags s) [] k Hk) as [Hf|Hl]; auto.
    eapply rd_getcheck_true; eauto.
Qed.

Lemma rd_is_locked_loop_true now o : forall ks t fl r,
  snd (rd_is_locked_loop now o ks t fl r) = true ->
  r = true /\ forall k, In k ks -> exists e, lookup k t = Some (o, e).
Proof.
  induction ks as [|a rest IH]; intros t fl r H; cbn [rd_is_locked_loop] in H.
  - cbn in H. split; auto. intros k [].
  - destruct (live now a t) as [[o' e0]|] eqn:Hlv.
    + destruct (o' =? o) eqn:Ho.
      * destruct (IH _ _ _ H) as [Hr Hall]. split; auto. intros k [Hk|Hk]; auto.
        subst a. apply N.eqb_eq in Ho. subst o'. apply live_some in Hlv. destruct Hlv. eauto.
      * destruct (IH _ _ _ H) as [Hr _]. discriminate.
    + destruct (IH _ _ _ H) as [Hr _]. discriminate.
Qed.

Lemma rd_ttl_loop_lookup now o e : expired now e = false -> forall ks t fl r k1,
  lookup k1 (fst (fst (rd_ttl_loop now o e ks t fl r))) =
  match live now k1 t with
  | Some (o1, _) => if mem k1 ks then Some (o1, e) else lookup k1 t
  | None => lookup k1 t
  end.
Proof.
  intros He. induction ks as [|k rest IH]; intros t fl r k1.
  - cbn. destruct (live now k1 t) as [[o1 e1]|]; auto.
  - cbn [rd_ttl_loop]. rewrite mem_cons.
    destruct (live now k t) as [[o' e0]|] eqn:Hk.
    + assert (Hgoal : forall fl' r',
        lookup k1 (fst (fst (rd_ttl_loop now o e rest (upsert k (o', e) t) fl' r'))) =
        match live now k1 t with
        | Some (o1, _) => if (k1 =? k) || mem k1 rest then Some (o1, e) else lookup k1 t
        | None => lookup k1 t
        end).
      { intros fl' r'. rewrite IH. destruct (k1 =? k) eqn:E.
        - apply N.eqb_eq in E. subst k1. rewrite Hk. cbn [orb].
          assert (Hl : live now k (upsert k (o', e) t) = Some (o', e)).
          { apply live_of_lookup; auto. rewrite lookup_upsert, N.eqb_refl. auto. }
          rewrite Hl. rewrite lookup_upsert, N.eqb_refl. destruct (mem k rest); auto.
        - assert (Hne : k1 <> k) by (apply N.eqb_neq; auto).
          rewrite live_upsert_neq by auto. rewrite lookup_upsert, E. cbn [orb]. auto. }
      destruct (o' =? o); apply Hgoal.
    + rewrite IH. destruct (k1 =? k) eqn:E; cbn [orb]; auto.
      apply N.eqb_eq in E. subst k1. rewrite Hk. auto.
Qed.

Lemma rd_ttl_loop_true now o e : expired now e = false -> forall ks t fl r,
  snd (rd_ttl_loop now o e ks t fl r) = true ->
  r = true /\ forall k, In k ks -> exists e0, live now k t = Some (o, e0).
Proof.
  intros He. induction ks as [|a rest IH]; intros t fl r H; cbn [rd_ttl_loop] in H.
  - cbn in H. split; auto. intros k [].
  - destruct (live now a t) as [[o' e0]|] eqn:Hlv.
    + destruct (o' =? o) eqn:Ho.
      * destruct (IH _ _ _ H) as [Hr Hall]. split; auto.
        apply N.eqb_eq in Ho. subst o'.
        intros k Hk. destruct (N.eq_dec k a) as [Heq|Hne].
        -- subst k. eauto.
        -- destruct Hk as [Hk|Hk]; [congruence|].
           destruct (Hall k Hk) as [e1 H1]. rewrite live_upsert_neq in H1 by auto. eauto.
      * destruct (IH _ _ _ H) as [Hr _]. discriminate.
    + destruct (IH _ _ _ H) as [Hr _]. discriminate.
Qed.

(* the invariant survives every Redis command that does not delete a live entry
   of another owner (Unlock with a stale flag) or shorten its TTL (IsLockedTTL) *)
Lemma rd_step_inv s b p :
  inv (rd_tbl s) (rd_now s) b -> rd_hazard s p = [] ->
  inv (rd_tbl (fst (rd_step s p))) (rd_now (fst (rd_step s p)))
      (bel_update (rd_tbl (fst (rd_step s p))) (rd_now (fst (rd_step s p))) p (snd (rd_step s p)) b).
Proof.
  intros Hi Hhz. destruct p as [o d ks|o d ks|o ks|o d ks|ks|o ks|n]; cbn [rd_step].
  - (* Lock *)
    destruct (rd_lock_props s o d ks) as [Hnow [Hfr Hgr]].
    apply (inv_step (rd_tbl s) (rd_now s) b); [exact Hi| | |].
    + rewrite Hnow. lia.
    + intros o1 k1 e1 Hl Hlive _. exists e1. split; [|apply exp_le_refl].
      rewrite Hnow in Hlive. auto.
    + intros o0 ks0 Heq Hg k Hk. inversion Heq; subst o0 ks0. cbn in Hg. eauto.
  - (* DualLock *)
    destruct (rd_lock_props s o d ks) as [Hnow [Hfr Hgr]].
    destruct (fst (snd (rd_lock s o d ks))) eqn:Hok.
    + unfold rd_is_locked. cbn [fst snd rd_tbl rd_now].
      apply (inv_step (rd_tbl s) (rd_now s) b); [exact Hi| | |].
      * rewrite Hnow. lia.
      * intros o1 k1 e1 Hl Hlive _. exists e1. split; [|apply exp_le_refl].
        rewrite Hnow in Hlive. auto.
      * intros o0 ks0 Heq Hg k Hk. inversion Heq; subst o0 ks0. cbn in Hg.
        apply rd_is_locked_loop_true in Hg. destruct Hg as [_ Hall]. auto.
    + apply (inv_step (rd_tbl s) (rd_now s) b); [exact Hi| | |].
      * rewrite Hnow. lia.
      * intros o1 k1 e1 Hl Hlive _. exists e1. split; [|apply exp_le_refl].
        rewrite Hnow in Hlive. auto.
      * intros o0 ks0 Heq Hg k Hk. unfold grants in Hg. rewrite Hok in Hg. discriminate.
  - (* IsLocked *)
    unfold rd_is_locked. cbn [fst snd rd_tbl rd_now].
    apply (inv_step (rd_tbl s) (rd_now s) b); [exact Hi| | |].
    + lia.
    + intros o1 k1 e1 Hl _ _. exists e1. split; auto using exp_le_refl.
    + intros o0 ks0 Heq Hg k Hk. inversion Heq; subst o0 ks0. cbn in Hg.
      apply rd_is_locked_loop_true in Hg. destruct Hg as [_ Hall]. auto.
  - (* IsLockedTTL *)
    cbn [fst snd rd_tbl rd_now].
    pose proof (rd_ttl_live (rd_now s) d) as He.
    apply (inv_step (rd_tbl s) (rd_now s) b); [exact Hi| | |].
    + lia.
    + intros o1 k1 e1 Hl Hlive Hs. rewrite (rd_ttl_loop_lookup _ _ _ He).
      rewrite (live_of_lookup _ _ _ _ _ Hl Hlive).
      destruct (mem k1 ks) eqn:Hm.
      * apply mem_In in Hm. exists (rd_ttl (rd_now s) d). split; auto.
        cbn [rd_hazard] in Hhz. pose proof (filter_nil _ _ Hhz k1 Hm) as Hf. cbn beta in Hf.
        unfold foreign_live in Hf. rewrite (live_of_lookup _ _ _ _ _ Hl Hlive) in Hf.
        destruct (o1 =? o) eqn:Ho.
        -- apply N.eqb_eq in Ho. exfalso. apply (Hs o ks eq_refl). auto.
        -- apply negb_false_iff in Hf. auto.
      * exists e1. split; auto using exp_le_refl.
    + intros o0 ks0 Heq Hg k Hk. inversion Heq; subst o0 ks0. cbn in Hg.
      apply (rd_ttl_loop_true _ _ _ He) in Hg. destruct Hg as [_ Hall].
      destruct (Hall k Hk) as [e0 Hl0]. rewrite (rd_ttl_loop_lookup _ _ _ He). rewrite Hl0.
      apply mem_In in Hk. rewrite Hk. eauto.
  - (* IsLockedByOthers *)
    cbn [fst snd].
    apply (inv_step (rd_tbl s) (rd_now s) b); [exact Hi| | |].
    + lia.
    + intros o1 k1 e1 Hl _ _. exists e1. split; auto using exp_le_refl.
    + intros o0 ks0 Heq. discriminate.
  - (* Unlock *)
    cbn [fst snd rd_tbl rd_now].
    apply (inv_step (rd_tbl s) (rd_now s) b); [exact Hi| | |].
    + lia.
    + intros o1 k1 e1 Hl Hlive Hs. exists e1. split; [|apply exp_le_refl].
      rewrite lookup_fold_remove.
      destruct (mem k1 (rd_unlock_keys (rd_flags s) o ks)) eqn:Hm; auto.
      apply mem_In in Hm. exfalso.
      cbn [rd_hazard] in Hhz. pose proof (filter_nil _ _ Hhz k1 Hm) as Hf. cbn beta in Hf.
      unfold foreign_live in Hf. rewrite (live_of_lookup _ _ _ _ _ Hl Hlive) in Hf.
      destruct (o1 =? o) eqn:Ho; [|discriminate].
      apply N.eqb_eq in Ho. apply (Hs o ks eq_refl). split; auto.
      unfold rd_unlock_keys in Hm. apply filter_In in Hm. tauto.
    + intros o0 ks0 Heq Hg. cbn in Hg. discriminate.
  - (* Tick *)
    cbn [fst snd rd_tbl rd_now].
    apply (inv_step (rd_tbl s) (rd_now s) b); [exact Hi| | |].
    + lia.
    + intros o1 k1 e1 Hl _ _. exists e1. split; auto using exp_le_refl.
    + intros o0 ks0 Heq. discriminate.
Qed.

Lemma rd_run_inv : forall ops s b,
  inv (rd_tbl s) (rd_now s) b -> snd (rd_run ops s b) = [] ->
  inv (rd_tbl (fst (fst (rd_run ops s b)))) (rd_now (fst (fst (rd_run ops s b)))) (snd (fst (rd_run ops s b))).
Proof.
  induction ops as [|p r IH]; intros s b Hi Hev; cbn [rd_run] in *.
  - cbn. auto.
  - cbn [fst snd] in *. apply app_eq_nil in Hev. destruct Hev as [Hev1 Hev2].
    apply IH; auto. apply rd_step_inv; auto.
Qed.

(* an Unlock that meets no live entry of another owner under a set flag frees nobody else *)
Lemma rd_unlock_foreign s o' ks k o :
  rd_hazard s (OUnlock o' ks) = [] -> o' <> o ->
  heldb (rd_tbl s) (rd_now s) k o = true ->
  heldb (rd_tbl (fst (rd_step s (OUnlock o' ks)))) (rd_now (fst (rd_step s (OUnlock o' ks)))) k o = true.
Proof.
  intros Hhz Hne Hh. cbn [rd_step fst rd_tbl rd_now].
  destruct (heldb_lookup _ _ _ _ Hh) as [e [Hl He]].
  unfold heldb. rewrite lookup_fold_remove.
  destruct (mem k (rd_unlock_keys (rd_flags s) o' ks)) eqn:Hm.
  - exfalso. apply mem_In in Hm. cbn [rd_hazard] in Hhz.
    pose proof (filter_nil _ _ Hhz k Hm) as Hf. cbn beta in Hf.
    unfold foreign_live in Hf. rewrite (live_of_lookup _ _ _ _ _ Hl He) in Hf.
    assert (Hb : o =? o' = false) by (apply N.eqb_neq; auto). rewrite Hb in Hf. discriminate.
  - rewrite Hl, N.eqb_refl, He. auto.
Qed.

(* ------------------------------------------------------------ Redis: polite clients meet no hazard *)

Lemma filter_all_false {A} (f : A -> bool) l : (forall x, In x l -> f x = false) -> filter f l = [].
Proof.
  induction l as [|a r IH]; intros H; cbn; auto.
  rewrite (H a) by (cbn; auto). apply IH. intros x Hx. apply H. cbn. auto.
Qed.

Lemma heldb_not_foreign t now k o : heldb t now k o = true -> foreign_live now o k t = None.
Proof.
  intros H. destruct (heldb_lookup _ _ _ _ H) as [e [Hl He]].
  unfold foreign_live. rewrite (live_of_lookup _ _ _ _ _ Hl He). rewrite N.eqb_refl. auto.
Qed.

Lemma polite_no_hazard s b p :
  inv (rd_tbl s) (rd_now s) b -> polite_op s b p = true -> rd_hazard s p = [].
Proof.
  intros Hi Hp. destruct p as [o d ks|o d ks|o ks|o d ks|ks|o ks|n]; cbn [rd_hazard]; auto;
    cbn [polite_op] in Hp; rewrite forallb_forall in Hp; apply filter_all_false; intros k Hk;
    rewrite (heldb_not_foreign _ _ _ _ (inv_believer_held _ _ _ _ _ Hi (Hp k Hk))); auto.
Qed.

Lemma rd_polite_no_hazard : forall ops s b,
  inv (rd_tbl s) (rd_now s) b -> rd_polite ops s b = true -> snd (rd_run ops s b) = [].
Proof.
  induction ops as [|p r IH]; intros s b Hi Hp; cbn [rd_run rd_polite] in *; auto.
  apply andb_true_iff in Hp. destruct Hp as [Hp1 Hp2]. cbn [fst snd].
  pose proof (polite_no_hazard s b p Hi Hp1) as Hh. rewrite Hh. cbn [app].
  apply IH; auto. apply rd_step_inv; auto.
Qed.

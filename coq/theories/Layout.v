(* Registry block layout: fs/hashmap.go getBlockOffsetAndHandleInBlockOffset,
   fs/hashmap.fileregion.go writeBlockRegionPayload, fs/marshaldata.go.
   Constants come from Gen.Consts (regenerated from the sources on every run). *)
From Coq Require Import List ZArith NArith.
From SopVerif Require Import Lib.Bytes Gen.Consts Gen.HandleCodec.
Import ListNotations.
Local Open Scope Z_scope.

Definition S_ : Z := HandleSizeInBytes.
Definition B_ : Z := blockSize.
Definition crc_len : Z := 4.

(* byte range [lo, hi) *)
Definition range := (Z * Z)%type.
Definition slot_range (i : Z) : range := (i * S_, i * S_ + S_).
Definition crc_range : range := (B_ - crc_len, B_).
Definition disjoint (a b : range) : Prop := snd a <= fst b \/ snd b <= fst a.
Definition inside (a b : range) : Prop := fst b <= fst a /\ snd a <= snd b.

(* id.Split(): high and low 64-bit halves; hashModValue > 0 *)
Definition blockOffset (hashMod : Z) (high : Z) : Z := (high mod hashMod) * B_.
Definition handleInBlockOffset (low : Z) : Z := (low mod handlesPerBlock) * S_.

(* UUID.Split: big-endian high and low halves *)
Definition id_high (id : uuid) : Z := Z.of_N (be_val (firstn 8 id)).
Definition id_low (id : uuid) : Z := Z.of_N (be_val (skipn 8 id)).
Definition id_offsets (hashMod : Z) (id : uuid) : Z * Z :=
  (blockOffset hashMod (id_high id), handleInBlockOffset (id_low id)).

(* copy(alignedBuffer[off:off+62], handleData) *)
Definition write_slot (b : list N) (i : Z) (d : list N) : list N :=
  splice b (Z.to_nat (i * S_)) d.
(* binary.LittleEndian.PutUint32(block[dataLen:], checksum) *)
Definition write_crc (b : list N) (c : N) : list N :=
  splice b (Z.to_nat (B_ - crc_len)) (le_bytes 4 c).
